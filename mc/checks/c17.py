"""C17 — configuration sources are equivalent and precedence is as documented (S3, exploration).

Seam: the REAL `mypy.main.process_options` in a scratch cwd (real argparse, parse_config_file,
parse_mypy_comments, Options.clone_for_module, Options.snapshot) — see mc/c17_eval.py.

Four exhaustive sub-enumerations (DESIGN section 4 / C17):
 (a) equivalence: every option of the INTROSPECTED option table (mc/c17_table.py) x every value of
     its small domain x every spelling in every source {flag, inverted flag, mypy.ini [mypy],
     setup.cfg [mypy], pyproject.toml [tool.mypy], --config-file ini/toml, ini [mypy-a.b],
     toml [[tool.mypy.overrides]], inline "# mypy:"}.  Whether a source can express an option is
     asked from mypy (complaint / exit 2 => excluded and counted).  Oracle: the snapshots of all
     accepted sources are equal (modulo fields that describe the source itself).
 (b) precedence: every option x every ordered pair of conflicting source instances (inline,
     concrete section, two unstructured sections, two structured sections, command line, [mypy])
     x both value assignments x {ini, toml}.  Oracle: c17_model.doc_winner (transcription of
     docs/source/config_file.rst "config-precedence") picks the winner; the expected effect is what
     mypy itself computes when the winner is the only source.
 (c) pattern sets: every ordered set of <= 3 sections over the pattern alphabet x every module name
     of depth <= 3 over {a,b,c} x every bool value assignment (lane c1) / every assignment of which
     of two id-valued options a section sets (lane c2), against the same transcription of the
     ORDERING rule (which sections apply to a module is taken from mypy's one-section runs).
 (d) end-to-end witnesses: for a handful of option families a tiny program whose diagnostics change
     with the option, through the real mypy.main.main under every accepted source, plus conflicting
     source pairs: equal snapshots mean equal diagnostics.

Added after seeded changes were missed:
 (a2) toml groupings: every relation (module, option) over 2x3 and 3x2 grids (thorough 3x3) x every way
     to write it as [[tool.mypy.overrides]] tables (list-valued module keys, a module named in several
     tables with disjoint keys) x table orders, each equivalent to one mypy.ini section per module.
 (c3) pattern sets where each section sets ONE of disable_error_code / enable_error_code (distinct code
     per section) / ignore_missing_imports / an unrelated option: a setting survives later applying
     sections that are silent about it (mypy stores implicit empty error-code lists in every section).
 (d)  layout witnesses: the same two non-conflicting settings as unstructured / structured / concrete
     sections, both orders, ini and toml, give the diagnostics of one concrete section.

Tiers.  quick: (a) files mypy.ini / setup.cfg / pyproject.toml / --config-file cfg.ini|cfg.toml;
(c) <= 3 sections, modules to depth 3, lane c1 in ini+toml, lane c2 in ini; (d) in-process with the
fixture stubs.  thorough adds: (a) .mypy.ini and per-module sections through --config-file; (c) <= 4
sections (c1), modules to depth 4, c2 in toml; (d) every witness again through `python -m mypy` with
the bundled typeshed (one spelling per source), including the deprecated_calls_exclude family.

Violation signatures are cause-level: "equiv|<option>|<partition of source kinds by observation>",
"prec|<pair of source instances>|expected-winner=..|opt=..|fmt=.." (opt=* when most options fail for
that pair), "prec|opt=<o>|winner-value=<v>|never-overrides-a-lower-source" (an option that loses in
every pair kind) and "pattern-order|<levels of the applying sections>|expected-winner=..".  Lane (c) takes
mypy's observed pattern/module relation as given (matching is not part of C17; doc-vs-code matching
discrepancies are reported in coverage.lane_c.matching_discrepancies_not_judged, never as violations).
"""

from __future__ import annotations

import itertools
import json
import os
import shutil
from collections import Counter, defaultdict
from typing import Any

from mc import c17_model as model
from mc.c17_eval import INTRINSIC_G, INTRINSIC_M, baseline, dead_fields, diff, evaluate, ini_text, toml_text
from mc.c17_table import build_table, flag_argvs, ini_literal, inline_texts, toml_literals
from mc.common import Ctx, Result, Violation, log, same_diagnostics, scratch, seeded_order
from mc.kernel import chunked, pmap, run_isolated

PROPERTY = "C17"
LEVEL = "exploration"

MOD = "a.b"  # the module every per-module source of lanes (a), (b) addresses
PATTERNS = ["a", "a.b", "a.b.c", "a.*", "a.b.*", "*.b", "a.*.c", "*.c", "*"]
NAMES = ["a", "b", "c"]

INI_GLOBAL_FILES = ["mypy.ini", "setup.cfg", "cfg.ini"]
_TIER = {"thorough": False, "seed": 0}  # set in run(); workers inherit it through fork
_DEAD: set[str] = set()  # Options fields nothing reads after option processing (set in run(), inherited by fork)


def J(x: Any) -> str:
    return json.dumps(x, sort_keys=True)


def modules_upto(depth: int) -> list[str]:
    return [".".join(p) for n in range(1, depth + 1) for p in itertools.product(NAMES, repeat=n)]


def _kind(source: str) -> str:
    return source.split(":")[0]


# =========================================================================== lane (a): equivalence


def _case(opt: str, vi: int, source: str, spelling: str, scope: str, args: list[str], files: dict[str, str],
          frag: Any, module: str, inline: str | None = None) -> dict[str, Any]:
    return {"opt": opt, "vi": vi, "source": source, "spelling": spelling, "scope": scope, "args": args,
            "files": files, "inline": inline, "modules": [module], "frag": frag}


def equiv_cases(table: dict[str, Any], names: list[str] | None = None, module: str = MOD,
                base_args: list[str] | None = None, domains: dict[str, list] | None = None,
                section_module: str | None = None) -> list[dict[str, Any]]:
    """Every (option, value, source, spelling).  Canonical order = simplest source first."""
    cases = []
    sect = section_module or module
    for name in sorted(table) if names is None else names:
        opt = table[name]
        dom = (domains or {}).get(name, opt["domain"])
        for vi, value in enumerate(dom):
            ba = list(base_args) if base_args is not None else ([] if opt["target"] else ["t.py"])
            for label, argv in flag_argvs(opt, value):
                cases.append(_case(name, vi, "flag", label, "G", ba + argv, {}, argv, module))
            for key, pol in opt["keys"].items():
                lit = ini_literal(opt, value, pol)
                if lit is not None:
                    for fn in INI_GLOBAL_FILES + ([".mypy.ini"] if _TIER["thorough"] else []):
                        extra = ["--config-file", fn] if fn.startswith("cfg.") else []
                        cases.append(_case(name, vi, f"ini-global:{fn}", key, "G", ba + extra,
                                           {fn: ini_text([("mypy", {key: lit})])}, [key, lit], module))
                    for fn in ["mypy.ini", "setup.cfg"] + ([".mypy.ini", "cfg.ini"] if _TIER["thorough"] else []):
                        extra = ["--config-file", fn] if fn.startswith("cfg.") else []
                        cases.append(_case(name, vi, f"ini-module:{fn}", key, "M", ba + extra,
                                           {fn: ini_text([("mypy", {}), (f"mypy-{sect}", {key: lit})])},
                                           [key, lit], module))
                for enc, tl in toml_literals(opt, value, pol):
                    for fn in ("pyproject.toml", "cfg.toml"):
                        extra = ["--config-file", fn] if fn.startswith("cfg.") else []
                        cases.append(_case(name, vi, f"toml-global<{enc}>:{fn}", key, "G", ba + extra,
                                           {fn: toml_text({key: tl}, [])}, [key, tl], module))
                    for fn in ["pyproject.toml"] + (["cfg.toml"] if _TIER["thorough"] else []):
                        extra = ["--config-file", fn] if fn.startswith("cfg.") else []
                        cases.append(_case(name, vi, f"toml-module<{enc}>:{fn}", key, "M", ba + extra,
                                           {fn: toml_text(None, [(sect, {key: tl})])}, [key, tl], module))
                for label, text in inline_texts(opt, key, value, pol):
                    cases.append(_case(name, vi, "inline", label, "M", ba, {}, text, module,
                                       f"# mypy: {text}\nx = 1\n"))
    return cases


def run_equiv_batch(batch: list[dict[str, Any]]) -> list[dict[str, Any]]:
    out = []
    for c in batch:
        mod = c["modules"][0]
        base = baseline(mod)
        r = evaluate(c)
        res: dict[str, Any] = {"status": r["status"], "complaint": r.get("complaint", "")}
        if r["status"] == "ok":
            res["dG"] = diff(r["G"], base["G"], (INTRINSIC_G if c["scope"] == "G" else INTRINSIC_M) | _DEAD)
            res["dM"] = diff(r["M"][mod], base["M"], INTRINSIC_M | _DEAD)
            res["targets"] = r["targets"]
        out.append(res)
    return out


def partition_signature(prefix: str, labels: dict[int, str], spell: dict[int, str], obs: dict[int, str]) -> str:
    """Cause-level identity of a disagreement: which KINDS of source fall into which observation
    class (a kind is qualified by its key spelling only when its spellings disagree among themselves)."""
    kinds_in: dict[str, set[str]] = defaultdict(set)
    for i, o in obs.items():
        kinds_in[labels[i]].add(o)
    classes: dict[str, set[str]] = defaultdict(set)
    for i, o in obs.items():
        lab = labels[i] if len(kinds_in[labels[i]]) == 1 else f"{labels[i]}[{spell[i]}]"
        classes[o].add(lab)
    parts = sorted("{" + ",".join(sorted(v)) + "}" for v in classes.values())
    return prefix + "|" + " != ".join(parts)


def judge_equiv(table: dict[str, Any], cases: list[dict], results: list[dict]) -> tuple[list[Violation], dict, dict]:
    groups: dict[tuple[str, int], list[int]] = defaultdict(list)
    for i, c in enumerate(cases):
        groups[(c["opt"], c["vi"])].append(i)
    viols: list[Violation] = []
    stats: Counter[str] = Counter()
    effects: dict[tuple[str, int], dict[str, Any]] = {}
    how: dict[tuple[str, int], dict[str, Any]] = defaultdict(dict)
    rejected_by_source: Counter[str] = Counter()
    accepted_by_source: Counter[str] = Counter()
    reject_reasons: dict[str, str] = {}
    nontrivial: set[tuple[str, int]] = set()
    sources_of: dict[str, set[str]] = defaultdict(set)
    gleak: set[str] = set()
    inline_silent: set[str] = set()
    distinct_obs: set[str] = set()
    for (name, vi), idxs in sorted(groups.items()):
        opt = table[name]
        value = opt["domain"][vi]
        ok = [i for i in idxs if results[i]["status"] == "ok"]
        for i in idxs:
            k = _kind(cases[i]["source"]).split("<")[0]
            if results[i]["status"] != "ok":
                rejected_by_source[k] += 1
                why = results[i]["complaint"]
                # generic reason = the complaint with the option-specific parts removed
                for tok in sorted(set(opt["names"]) | {cases[i]["spelling"]}, key=len, reverse=True):
                    why = why.replace(tok, "<opt>").replace(tok.replace("_", "-"), "<opt>")
                reason = k + ": " + why.split("]:")[-1].strip()[:90]
                reject_reasons.setdefault(reason, f"{name}={value!r} via {cases[i]['source']}[{cases[i]['spelling']}]")
            else:
                accepted_by_source[k] += 1
        # the inline source is only claimed "for per-module settings": compare it only when mypy
        # accepted the same setting in a per-module config section
        pm_ok = any(_kind(cases[i]["source"]).startswith(("ini-module", "toml-module")) for i in ok)
        if not pm_ok:
            n_inl = sum(1 for i in ok if cases[i]["source"] == "inline")
            if n_inl:
                stats["inline_cases_not_compared_option_not_per_module"] += n_inl
                inline_silent.add(name)
            ok = [i for i in ok if cases[i]["source"] != "inline"]
        for i in ok:
            k = _kind(cases[i]["source"]).split("<")[0]
            sources_of[name].add(k)
            how[(name, vi)].setdefault(k, cases[i]["frag"])
        stats["groups"] += 1
        if len(ok) < 2:
            stats["groups_with_fewer_than_2_accepted_sources"] += 1
            if ok:
                effects[(name, vi)] = results[ok[0]]["dM"]
            continue
        stats["groups_compared"] += 1
        seen_sig: set[str] = set()
        for scope, members, field in (
            ("G", [i for i in ok if cases[i]["scope"] == "G"], "dG"),
            ("M", ok, "dM"),
        ):
            if not members:
                continue
            use_targets = scope == "G" or opt["target"]
            obs = {i: J([results[i][field], results[i]["targets"] if use_targets else None]) for i in members}
            cnt = Counter(obs.values())
            stats[f"comparisons_{scope}"] += len(members) - 1
            # reference for reporting and for lane (b): the command line when it can say it, else
            # the first source in canonical order
            ref_i = members[0]
            if scope == "M":
                effects[(name, vi)] = results[ref_i]["dM"]
                if results[ref_i]["dM"] or results[ref_i]["dG"] or results[ref_i]["targets"] != baseline_targets():
                    nontrivial.add((name, vi))
                distinct_obs.update(obs.values())
            if len(cnt) == 1:
                continue
            labels = {i: _kind(cases[i]["source"]) for i in members}
            spell = {i: cases[i]["spelling"] for i in members}
            sig = partition_signature(f"equiv|{name}", labels, spell, obs)
            if sig in seen_sig:
                continue  # the module-level view repeats what the global-level view already showed
            seen_sig.add(sig)
            dev = next(i for i in members if obs[i] != obs[ref_i])
            a, b = results[dev][field], results[ref_i][field]
            fields = sorted(k for k in set(a) | set(b) if a.get(k) != b.get(k))
            if use_targets and results[dev]["targets"] != results[ref_i]["targets"]:
                fields.append("<targets>")
            viols.append(Violation(sig,
                f"{name}={value!r}: {cases[dev]['source']}[{cases[dev]['spelling']}] gives "
                f"{ {k: a.get(k) for k in fields} } but {cases[ref_i]['source']}[{cases[ref_i]['spelling']}] gives "
                f"{ {k: b.get(k) for k in fields} } ({len(cnt)} observation classes over {len(members)} sources)",
                {"lane": "a", "opt": name, "vi": vi, "case": cases[dev], "reference": cases[ref_i], "fields": fields}))
        for i in ok:
            if cases[i]["scope"] == "M" and results[i]["dG"]:
                gleak.add(f"{name} via {_kind(cases[i]['source'])}: {sorted(results[i]['dG'])}")
    info = {
        "stats": dict(stats), "rejected_by_source": dict(rejected_by_source),
        "accepted_by_source": dict(accepted_by_source), "reject_reasons": reject_reasons,
        "nontrivial": nontrivial, "sources_of": sources_of, "distinct_observations": len(distinct_obs),
        "module_source_changed_global_options": sorted(gleak),
        "inline_silently_accepts_non_per_module_options": sorted(inline_silent),
    }
    return viols, info, {"how": how, "effects": effects}


_bt: list | None = None


def baseline_targets() -> list:
    global _bt
    if _bt is None:
        _bt = run_isolated(baseline, MOD)["targets"]
    return _bt


# =========================================================================== lane (a2): toml groupings

G_MODS = ["p.a", "p.b", "p.c"]
G_OTHER = "p.z"  # a module no table names: must stay untouched


def rect_partitions(cells: list[tuple[int, int]]) -> list[list[tuple[tuple[int, ...], tuple[int, ...]]]]:
    """Every way to write the relation `cells` (module index, key index) as override tables: a table
    names a set of modules and a set of keys and stands for their product; tables are disjoint and
    cover the relation exactly."""
    todo = sorted(cells)
    if not todo:
        return [[]]
    m0, k0 = todo[0]
    left = set(todo)
    mods = sorted({m for m, _ in todo if m != m0})
    keys = sorted({k for _, k in todo if k != k0})
    out = []
    for r in range(len(mods) + 1):
        for ms in itertools.combinations(mods, r):
            for q in range(len(keys) + 1):
                for ks in itertools.combinations(keys, q):
                    rect = {(m, k) for m in (m0,) + ms for k in (k0,) + ks}
                    if rect <= left:
                        for rest in rect_partitions(sorted(left - rect)):
                            out.append([(tuple(sorted((m0,) + ms)), tuple(sorted((k0,) + ks)))] + rest)
    return out


def grouping_cases(keys: list[tuple[str, str, str]], thorough: bool) -> list[dict]:
    """keys: [(option, ini literal, toml literal)] (3 of them).  Relations over 2x3 and 3x2 grids
    (thorough: 3x3), every partition into tables, every table order (all permutations up to 4 tables,
    otherwise file order and its reverse).  Simplest first."""
    grids = [(3, 3)] if thorough else [(2, 3), (3, 2)]
    seen: set[tuple] = set()
    rels: list[tuple[tuple[int, int], ...]] = []
    for nm, nk in grids:
        cells = [(m, k) for m in range(nm) for k in range(nk)]
        for r in range(1, len(cells) + 1):
            for rel in itertools.combinations(cells, r):
                if rel not in seen:
                    seen.add(rel)
                    rels.append(rel)
    rels.sort(key=lambda rel: (len(rel), rel))
    cases = []
    for rel in rels:
        per_mod: dict[int, list[int]] = defaultdict(list)
        for m, k in rel:
            per_mod[m].append(k)
        ini = ini_text([("mypy", {})] + [(f"mypy-{G_MODS[m]}", {keys[k][0]: keys[k][1] for k in ks})
                                         for m, ks in sorted(per_mod.items())])
        cases.append({"rel": list(rel), "fmt": "ini", "tables": None, "files": {"mypy.ini": ini}})
        for part in rect_partitions(list(rel)):
            orders = list(itertools.permutations(part)) if len(part) <= (3 if thorough else 4) else [tuple(part), tuple(part[::-1])]
            for tabs in orders:
                lines = ["[tool.mypy]", ""]
                for ms, ks in tabs:
                    lines.append("[[tool.mypy.overrides]]")
                    if len(ms) == 1:
                        lines.append(f'module = "{G_MODS[ms[0]]}"')
                    else:
                        lines.append("module = [" + ", ".join(f'"{G_MODS[m]}"' for m in ms) + "]")
                    for k in ks:
                        lines.append(f"{keys[k][0]} = {keys[k][2]}")
                    lines.append("")
                cases.append({"rel": list(rel), "fmt": "toml", "tables": [[list(ms), list(ks)] for ms, ks in tabs],
                              "files": {"pyproject.toml": "\n".join(lines)}})
    return cases


def run_grouping_batch(item: dict) -> list[dict]:
    out = []
    for c in item["cases"]:
        r = evaluate({"args": ["t.py"], "files": c["files"], "modules": G_MODS + [G_OTHER], "module_fields": item["fields"]})
        if r["status"] != "ok":
            out.append({"status": "rejected", "complaint": r.get("complaint", "")[:200]})
        else:
            out.append({"status": "ok", "M": r["M"]})
    return out


def lane_a2(table: dict, info_a: dict, ctx: Ctx, herr: list[str], only_rel: list | None = None) -> tuple[list[Violation], dict]:
    src = info_a["sources_of"]
    pm = [n for n in sorted(table) if table[n]["per_module"] and "ini-module" in src.get(n, ()) and "toml-module" in src.get(n, ())]
    bools = [n for n in pm if table[n]["kind"] == "bool"]
    lists = [n for n in pm if table[n]["kind"] == "list" and "error_code" not in n]
    if len(bools) < 2 or not lists:
        raise RuntimeError("lane (a2): need two per-module bools and one per-module list option")
    keys = []
    for n in bools[:2]:
        v = not table[n]["default"]
        keys.append((n, str(v), "true" if v else "false"))
    keys.append((lists[0], "G1", '["G1"]'))
    cases = grouping_cases(keys, ctx.thorough)
    if only_rel is not None:
        cases = [c for c in cases if J(c["rel"]) == J(only_rel)]
    fields = [k[0] for k in keys]
    size = 100
    items = [{"cases": b, "fields": fields} for b in chunked(cases, size)]
    order = seeded_order(list(range(len(items))), ctx.seed)
    res: list[Any] = [None] * len(cases)
    for k, _it, st, val in pmap(run_grouping_batch, [items[i] for i in order], fresh=False, timeout=1800):
        if st != "ok":
            herr.append(f"a2 batch {order[k]} failed: {str(val)[:300]}")
            continue
        for j, r in enumerate(val):
            res[order[k] * size + j] = r
    if any(r is None for r in res):
        raise RuntimeError("lane a2 incomplete: " + "; ".join(herr[:3]))
    viols: list[Violation] = []
    stats: Counter[str] = Counter()
    ref: dict[str, dict] = {}
    for c, r in zip(cases, res):
        if c["fmt"] == "ini":
            ref[J(c["rel"])] = r
    samples = []
    for c, r in zip(cases, res):
        if c["fmt"] != "toml":
            stats["relations"] += 1
            continue
        stats["toml_groupings"] += 1
        tabs = c["tables"]
        listed = any(len(ms) > 1 for ms, _ in tabs)
        repeated = len({m for ms, _ in tabs for m in ms}) < sum(len(ms) for ms, _ in tabs)
        stats["with_list_valued_module_key"] += listed
        stats["with_a_module_named_in_several_tables"] += repeated
        stats["with_both"] += listed and repeated
        if len(samples) < 1 and listed and repeated:
            samples.append({"relation (module, option)": [[G_MODS[m], keys[k][0]] for m, k in c["rel"]],
                            "tables": [[[G_MODS[m] for m in ms], [keys[k][0] for k in ks]] for ms, ks in tabs]})
        rr = ref[J(c["rel"])]
        if rr["status"] != "ok":
            stats["reference_rejected"] += 1
            continue
        shape = f"list-valued-module={'yes' if listed else 'no'}|module-in-several-tables={'yes' if repeated else 'no'}"
        desc = [[[G_MODS[m] for m in ms], [keys[k][0] for k in ks]] for ms, ks in tabs]
        if r["status"] != "ok":
            viols.append(Violation(f"toml-grouping|rejected|{shape}",
                                   f"override tables {desc} are rejected ({r['complaint']}) although the same settings as mypy.ini sections are accepted",
                                   {"lane": "a2", "rel": c["rel"], "tables": tabs, "files": c["files"]}))
            continue
        bad = {m: {f: (r["M"][m][f], rr["M"][m][f]) for f in fields if r["M"][m][f] != rr["M"][m][f]}
               for m in G_MODS + [G_OTHER] if r["M"][m] != rr["M"][m]}
        if bad:
            viols.append(Violation(f"toml-grouping|differs-from-ini-sections|{shape}",
                                   f"override tables {desc}: (toml, ini) values differ for {bad}",
                                   {"lane": "a2", "rel": c["rel"], "tables": tabs, "files": c["files"]}))
    return viols, {"stats": dict(stats), "cases": len(cases), "options": fields, "modules": G_MODS + [G_OTHER],
                   "grids": "3x3" if ctx.thorough else "2x3 and 3x2", "samples": samples}


# =========================================================================== lane (b): precedence pairs

# instance id -> (documented level, section pattern)
INSTANCES = [
    ("inline", model.INLINE, None),
    ("concrete[a.b]", model.CONCRETE, "a.b"),
    ("unstructured[*.b]", model.UNSTRUCTURED, "*.b"),
    ("unstructured[a.*.b]", model.UNSTRUCTURED, "a.*.b"),
    ("structured[a.*]", model.STRUCTURED, "a.*"),
    ("structured[a.b.*]", model.STRUCTURED, "a.b.*"),
    ("cmdline", model.CMDLINE, None),
    ("global", model.GLOBAL, None),
]


def prec_cases(table: dict[str, Any], carry: dict, names: list[str] | None = None) -> tuple[list[dict], Counter]:
    how, effects = carry["how"], carry["effects"]
    cases: list[dict] = []
    skipped: Counter[str] = Counter()
    for name in sorted(table) if names is None else names:
        opt = table[name]
        vis = [vi for vi in range(len(opt["domain"])) if (name, vi) in effects]
        # two values with different effects
        pair = next(((x, y) for x in vis for y in vis if x < y and effects[(name, x)] != effects[(name, y)]), None)
        if pair is None:
            skipped["options_without_two_distinguishable_values"] += 1
            continue
        fields = sorted(set(effects[(name, pair[0])]) | set(effects[(name, pair[1])]))
        if not fields:
            skipped["options_without_observable_module_effect"] += 1
            continue
        for fmt in ("ini", "toml"):
            def frag(inst: str, level: int, vi: int) -> Any:
                h = how.get((name, vi), {})
                if level == model.INLINE:
                    return h.get("inline")
                if level == model.CMDLINE:
                    return h.get("flag")
                if level == model.GLOBAL:
                    return h.get(f"{fmt}-global")
                return h.get(f"{fmt}-module")

            for (ia, la, pa), (ib, lb, pb) in itertools.permutations(INSTANCES, 2):
                for va, vb in (pair, pair[::-1]):
                    fa, fb = frag(ia, la, va), frag(ib, lb, vb)
                    if fa is None or fb is None:
                        skipped["pairs_where_a_source_cannot_express_the_value"] += 1
                        continue
                    args = [] if opt["target"] else ["t.py"]
                    inline = None
                    sections: list[tuple[str | None, dict]] = []  # in file order; None = the global section
                    settings = []
                    for pos, (inst, lvl, pat, fr, vi) in enumerate(((ia, la, pa, fa, va), (ib, lb, pb, fb, vb))):
                        settings.append({"level": lvl, "pattern": pat, "pos": pos, "id": vi, "inst": inst})
                        if lvl == model.INLINE:
                            inline = f"# mypy: {fr}\nx = 1\n"
                        elif lvl == model.CMDLINE:
                            args = args + list(fr)
                        else:
                            sections.append((pat, {fr[0]: fr[1]}))
                    if fmt == "ini":
                        if not any(p is None for p, _ in sections):
                            sections.insert(0, (None, {}))
                        files = {"mypy.ini": ini_text([("mypy" if p is None else f"mypy-{p}", kv) for p, kv in sections])}
                    else:
                        g = next((kv for p, kv in sections if p is None), None)
                        files = {"pyproject.toml": toml_text(g, [(p, kv) for p, kv in sections if p is not None])}
                    cases.append({"opt": name, "fmt": fmt, "settings": settings, "values": [va, vb], "fields": fields,
                                  "args": args, "files": files, "inline": inline, "modules": [MOD]})
    return cases, skipped


def run_prec_batch(batch: list[dict]) -> list[dict]:
    out = []
    for c in batch:
        r = evaluate(c)
        if r["status"] != "ok":
            out.append({"status": r["status"], "complaint": r.get("complaint", "")})
            continue
        out.append({"status": "ok", "M": {f: r["M"][MOD].get(f) for f in c["fields"]}})
    return out


def effect_ok(kind: str, expected: Any, observed: Any, basev: Any) -> bool:
    """Scalars: the winner's value is in force.  Additive kinds (repeatable flags: argparse `append`,
    `count`) are not a conflict when two sources name different elements, so only demand that the
    winner's contribution is in force."""
    if isinstance(expected, list) and isinstance(observed, list):
        return all(x in observed for x in expected if not (isinstance(basev, list) and x in basev))
    if kind == "count" and isinstance(expected, int) and isinstance(observed, int):
        return observed >= expected
    return expected == observed


def judge_prec(table: dict, carry: dict, cases: list[dict], results: list[dict], baseM: dict) -> tuple[list[Violation], dict]:
    effects = carry["effects"]
    fails: list[tuple[tuple, dict, dict, dict, int]] = []
    evaluated: dict[tuple, set] = defaultdict(set)
    ev_opt: dict[tuple[str, int], set] = defaultdict(set)  # (option, winner value) -> pair kinds judged
    fail_opt: dict[tuple[str, int], set] = defaultdict(set)
    stats: Counter[str] = Counter()
    for c, r in zip(cases, results):
        if r["status"] != "ok":
            stats["pairs_rejected_by_mypy"] += 1
            continue
        s0, s1 = c["settings"]
        win_vi = model.doc_winner(c["settings"], MOD)
        winner = next(s for s in c["settings"] if s["id"] == win_vi)
        a, b = sorted((s0, s1), key=lambda s: (s["level"], s["pattern"] or ""))
        order = ""
        if s0["level"] == s1["level"] == model.UNSTRUCTURED:
            order = "|file-order=" + ">".join(s["pattern"] for s in (s0, s1))
        key = (a["inst"], b["inst"], order, winner["inst"])
        evaluated[key].add((c["opt"], c["fmt"]))
        ev_opt[(c["opt"], win_vi)].add(key)
        stats["pairs_judged"] += 1
        stats[f"winner_{model.LEVEL_NAMES[winner['level']]}"] += 1
        exp = effects[(c["opt"], win_vi)]
        kind = table[c["opt"]]["kind"]
        bad = {}
        for f in c["fields"]:
            e = exp.get(f, baseM.get(f))
            if not effect_ok(kind, e, r["M"].get(f), baseM.get(f)):
                bad[f] = {"expected": e, "observed": r["M"].get(f)}
        if bad:
            fails.append((key, c, r, bad, win_vi))
            fail_opt[(c["opt"], win_vi)].add(key)
    by_key: dict[tuple, list] = defaultdict(list)
    viols: list[Violation] = []
    for key, c, r, bad, win_vi in fails:
        ov = (c["opt"], win_vi)
        if len(ev_opt[ov]) >= 3 and fail_opt[ov] == ev_opt[ov]:
            # the option itself, not a particular pair of sources: whoever should win with this value never does
            value = table[c["opt"]]["domain"][win_vi]
            sig = f"prec|opt={c['opt']}|winner-value={value!r}|never-overrides-a-lower-source"
            viols.append(Violation(sig,
                f"{c['opt']} [{c['fmt']}]: {c['settings'][0]['inst']}=value#{c['values'][0]} then "
                f"{c['settings'][1]['inst']}=value#{c['values'][1]}: documented winner {key[3]} says {value!r}, but for "
                f"module {MOD} { {k: v for k, v in list(bad.items())[:3]} } (same in all {len(ev_opt[ov])} pair kinds)",
                {"lane": "b", "opt": c["opt"], "case": c, "bad": bad}))
        else:
            by_key[key].append((c, r, bad))
    for key, items in sorted(by_key.items()):
        failing = {(c["opt"], c["fmt"]) for c, _, _ in items}
        # one cause for (nearly) every option => a property of the pair of sources, not of an option
        # (additive list options legitimately pass where scalar ones fail, hence "more than half")
        universal = 2 * len(failing) > len(evaluated[key])
        for c, r, bad in items:
            a, b, order, w = key
            who = "*" if universal else c["opt"]
            fm = "*" if universal or {(c["opt"], "ini"), (c["opt"], "toml")} <= failing else c["fmt"]
            sig = f"prec|{a}+{b}{order}|expected-winner={w}|opt={who}|fmt={fm}"
            viols.append(Violation(sig,
                f"{c['opt']} [{c['fmt']}]: {c['settings'][0]['inst']}=value#{c['values'][0]} then "
                f"{c['settings'][1]['inst']}=value#{c['values'][1]}: documented winner {w}, but for module {MOD} {bad}",
                {"lane": "b", "opt": c["opt"], "case": c, "bad": bad}))
    return viols, {"stats": dict(stats), "pair_kinds": len(evaluated)}


# =========================================================================== lane (c): pattern sets


def pattern_configs(patterns: list[str], max_sections: int, lane: str, fmt: str) -> list[dict]:
    cfgs = []
    for k in range(1, max_sections + 1):
        for secs in itertools.permutations(patterns, k):
            if lane == "c1":
                assigns: list[tuple] = list(itertools.product((True, False), repeat=k))
            elif lane == "c2":
                assigns = list(itertools.product(("X", "Y", "XY"), repeat=k))
            else:  # c3: each section sets ONE of the incremental options D/E, the bool I, or none of them (N)
                assigns = list(itertools.product(("D", "E", "I", "N"), repeat=k))
            for asg in assigns:
                cfgs.append({"lane": lane, "fmt": fmt, "sections": list(secs), "assign": list(asg)})
    return cfgs


def c3_bool(i: int) -> bool:
    """Value section number i gives to the bool option of lane c3 (alternating, so neighbours conflict)."""
    return i % 2 == 0


def _pattern_files(cfg: dict, names: dict) -> dict[str, str]:
    secs = []
    for i, (p, a) in enumerate(zip(cfg["sections"], cfg["assign"])):
        toml = cfg["fmt"] == "toml"
        if cfg["lane"] == "c1":
            kv = {names["B"]: ("true" if a else "false") if toml else str(a)}
        elif cfg["lane"] == "c3":
            if a == "D":
                kv = {names["D"]: f'["{names["Dcodes"][i]}"]' if toml else names["Dcodes"][i]}
            elif a == "E":
                kv = {names["E"]: f'["{names["Ecodes"][i]}"]' if toml else names["Ecodes"][i]}
            elif a == "I":
                v = c3_bool(i)
                kv = {names["I"]: ("true" if v else "false") if toml else str(v)}
            else:  # a section that says nothing about D/E/I (it sets an unrelated option)
                v = not names["Bdefault"]
                kv = {names["B"]: ("true" if v else "false") if toml else str(v)}
        else:
            kv = {}
            for letter in a:
                kv[names[letter]] = f'["S{i}"]' if cfg["fmt"] == "toml" else f"S{i}"
        secs.append((p, kv))
    if cfg["fmt"] == "toml":
        return {"pyproject.toml": toml_text(None, secs)}
    return {"mypy.ini": ini_text([("mypy", {})] + [(f"mypy-{p}", kv) for p, kv in secs])}


def run_pattern_batch(item: dict) -> Any:
    """item: {"cfgs": [...], "names": {"B","X","Y"}, "modules": [...], "judge": {...}|None}.

    Without "judge": per cfg the raw row (per module: c1 the bool; c2 [X list, Y list]) or
    {"rejected": ...}.  With "judge" (defaults, observed single-pattern relation): the batch is judged
    here, in the worker, and only the summary travels back."""
    names, mods = item["names"], item["modules"]
    out: list[Any] = []
    for cfg in item["cfgs"]:
        if cfg["lane"] == "c3":
            fields = [names["Dset"], names["Eset"], names["I"]]
        else:
            fields = sorted({names["B"], names["X"], names["Y"]})
        r = evaluate({"args": ["t.py"], "files": _pattern_files(cfg, names), "modules": mods, "module_fields": fields})
        if r["status"] != "ok":
            out.append({"rejected": r.get("complaint", "")})
            continue
        row = []
        for m in mods:
            s = r["M"][m]
            if cfg["lane"] == "c1":
                row.append(s[names["B"]])
            elif cfg["lane"] == "c3":
                row.append([s[names["Dset"]], s[names["Eset"]], s[names["I"]]])
            else:
                row.append([s[names["X"]], s[names["Y"]]])
        out.append(row)
    j = item.get("judge")
    if j is None:
        return out
    obs_match = {(p, m): v for p, m, v in j["obs_match"]}
    viols, stats, samples = judge_patterns(item["cfgs"], out, mods, j["defaults"], obs_match, names)
    keep: dict[str, list] = defaultdict(list)
    counts: Counter[str] = Counter()
    for v in viols:
        counts[v.signature] += 1
        if len(keep[v.signature]) < 2:
            keep[v.signature].append((v.signature, v.what, v.detail))
    return {"stats": dict(stats), "counts": dict(counts), "kept": [x for vs in keep.values() for x in vs],
            "samples": samples[:2]}


def _shape(pattern: str) -> str:
    it = iter("XYZW")
    return ".".join(c if c == "*" else next(it) for c in pattern.split("."))


def judge_incremental(cfg: dict, row: list, mods: list[str], defaults: dict, obs_match: dict, names: dict,
                      viols: list[Violation], stats: Counter) -> None:
    """Lane c3.  Documented rule, per OPTION: among the applying sections that SET the option the
    documented winner decides; an applying section that does not mention the option leaves it alone
    (it is inherited).  The error-code lists are incremental in mypy (several sections may each add
    codes), so for them only this much is demanded: the winner's code is in force, and the code of a
    section that does not apply to the module is not."""

    def applies(p: str, mm: str) -> bool:
        return obs_match.get((p, mm), model.doc_matches(p, mm))

    secs, asg = cfg["sections"], cfg["assign"]
    for mi, m in enumerate(mods):
        disabled, enabled, ival = row[mi]
        live = [i for i, p in enumerate(secs) if applies(p, m)]
        for tr, codes, have in (("D", names["Dcodes"], disabled), ("E", names["Ecodes"], enabled), ("I", None, ival)):
            setters = [{"level": model.section_level(secs[i]), "pattern": secs[i], "pos": i, "id": i}
                       for i in range(len(secs)) if asg[i] == tr]
            if not setters:
                continue
            stats["evaluations"] += 1
            stats["c3_evaluations"] += 1
            w = model.doc_winner(setters, m, matches=applies)
            if w is not None and live and live[-1] != w and len(live) >= 2:
                stats["c3_winner_followed_by_an_applying_section_silent_about_the_option"] += 1
            bad = None
            if tr == "I":
                exp = defaults["I"] if w is None else c3_bool(w)
                if have != exp:
                    bad = f"{names['I']} expected {exp!r}, got {have!r}"
            else:
                if w is not None and codes[w] not in have:
                    bad = f"code {codes[w]!r} set by the documented winner [mypy-{secs[w]}] is not in force ({have})"
                leak = [codes[s0["id"]] for s0 in setters if not applies(s0["pattern"], m) and codes[s0["id"]] in have]
                if bad is None and leak:
                    bad = f"code {leak[0]!r} of a section that does not apply to {m} is in force"
            if bad:
                opt = names[tr]
                wl = model.LEVEL_NAMES[settings_level(setters, w)] if w is not None else "none"
                viols.append(Violation(
                    f"pattern-inherit|opt={opt}|setter={wl}",
                    f"sections {secs} set {asg} ({cfg['fmt']}; D={names['D']}, E={names['E']}, I={names['I']}, N=other option), "
                    f"module {m}: {bad}",
                    {"lane": "c", "cfg": cfg, "module": m, "track": tr}))


def judge_patterns(cfgs: list[dict], rows: list[Any], mods: list[str], defaults: dict,
                   obs_match: dict[tuple[str, str], bool], names: dict | None = None) -> tuple[list[Violation], Counter, list]:
    viols: list[Violation] = []
    stats: Counter[str] = Counter()
    samples: list = []
    for cfg, row in zip(cfgs, rows):
        if isinstance(row, dict):
            stats["configs_rejected"] += 1
            continue
        lane = cfg["lane"]
        if lane == "c3":
            assert names is not None
            judge_incremental(cfg, row, mods, defaults, obs_match, names, viols, stats)
            continue
        tracks = ["B"] if lane == "c1" else ["X", "Y"]
        for mi, m in enumerate(mods):
            for ti, tr in enumerate(tracks):
                settings = [
                    {"level": model.section_level(p), "pattern": p, "pos": i, "id": i}
                    for i, (p, a) in enumerate(zip(cfg["sections"], cfg["assign"]))
                    if lane == "c1" or tr in a
                ]

                def val(w: Any) -> Any:
                    if w is None:
                        return defaults[tr]
                    return cfg["assign"][w] if lane == "c1" else [f"S{w}"]

                # WHICH modules a pattern matches is not part of C17 (and the docs are ambiguous about a
                # leading "*.X" and a bare "*"): mypy's own single-pattern relation, observed from the
                # one-section runs, is taken as given; only the ORDERING among the applying sections is judged.
                def applies(p: str, mm: str) -> bool:
                    return obs_match.get((p, mm), model.doc_matches(p, mm))

                w = model.doc_winner(settings, m, matches=applies)
                exp = val(w)
                got = row[mi] if lane == "c1" else row[mi][ti]
                stats["evaluations"] += 1
                n_match = sum(1 for s in settings if applies(s["pattern"], m))
                if n_match >= 2:
                    stats["module_matched_by_2_or_more_sections"] += 1
                if w is not None:
                    stats["winner_" + model.LEVEL_NAMES[settings_level(settings, w)]] += 1
                # statistic only: where the documented matching text, read literally, would change the result
                disc = sorted({_shape(s["pattern"]) for s in settings if applies(s["pattern"], m) != model.doc_matches(s["pattern"], m)})
                if disc:
                    stats["evaluations_with_a_section_whose_matching_differs_from_the_docs"] += 1
                    if val(model.doc_winner(settings, m)) != exp:
                        for sh in disc:
                            stats["doc_matching_would_change_result|shape=" + sh] += 1
                if len(samples) < 3 and n_match >= 2 and lane == "c1" and len(set(cfg["assign"])) > 1:
                    samples.append({"sections": cfg["sections"], "values": cfg["assign"], "module": m,
                                    "documented_winner": cfg["sections"][w], "observed": got})
                if got == exp:
                    continue
                lv = sorted({model.LEVEL_NAMES[s["level"]] for s in settings if applies(s["pattern"], m)})
                sig = f"pattern-order|matching={'+'.join(lv)}|expected-winner={model.LEVEL_NAMES[settings_level(settings, w)] if w is not None else 'default'}"
                what = (f"sections {cfg['sections']} values {cfg['assign']} ({cfg['fmt']}), module {m}: documented "
                        f"winner {cfg['sections'][w] if w is not None else 'none'} => {exp!r}, mypy gives {got!r}")
                viols.append(Violation(sig, what, {"lane": "c", "cfg": cfg, "module": m, "track": tr,
                                                   "expected": exp, "observed": got}))
    return viols, stats, samples


def settings_level(settings: list[dict], wid: Any) -> int:
    return next(s["level"] for s in settings if s["id"] == wid)


# =========================================================================== lane (d): end-to-end witnesses

# (option, program of module m, value domain override or None, module the per-module section names)
# Programs use only what both the fixture stubs and the bundled typeshed provide.
WITNESSES: list[dict[str, Any]] = [
    {"opt": "disallow_untyped_defs", "prog": "def f(x): return x\n"},
    {"opt": "check_untyped_defs", "prog": "def f():\n    x: int = ''\n"},
    {"opt": "strict_optional", "prog": "x: int = None\n"},
    {"opt": "ignore_errors", "prog": "x: int = ''\n"},
    {"opt": "warn_unused_ignores", "prog": "x = 1  # type: ignore\n"},
    {"opt": "warn_no_return", "prog": "def f(x: int) -> int:\n    if x:\n        return 1\n"},
    {"opt": "implicit_optional", "prog": "def f(x: int = None) -> None: ...\n"},
    {"opt": "disallow_any_explicit", "prog": "from typing import Any\nx: Any = 1\n"},
    {"opt": "disable_error_code", "prog": "x: int = ''\n", "domain": [["assignment"]]},
    {"opt": "enable_error_code", "prog": "x: int = ''  # type: ignore\n", "domain": [["ignore-without-code"]]},
    {"opt": "always_true", "prog": "FLAG = False\nif FLAG:\n    pass\nelse:\n    x: int = ''\n", "domain": [["FLAG"]]},
    {"opt": "ignore_missing_imports", "prog": "import nosuchmod\n", "section_module": "nosuchmod", "no_inline": True},
    {"opt": "show_column_numbers", "prog": "x: int = ''\n"},
    {"opt": "hide_error_codes", "prog": "x: int = ''\n"},
    {"opt": "show_error_context", "prog": "def f() -> None:\n    x: int = ''\n"},
    {"opt": "strict", "prog": "def f(x): return x\n"},
    {"opt": "untyped_calls_exclude", "prog": "import lib\ndef g() -> None:\n    lib.f()\n",
     "extra": {"lib.py": "def f(): pass\n"}, "domain": [["lib"]], "with": ["--disallow-untyped-calls"]},
    # typing_extensions of the fixture stubs needs builtins.tuple, which lib-stub/builtins.pyi lacks
    {"opt": "deprecated_calls_exclude", "real_only": True, "prog": "import lib\nlib.f()\n",
     "extra": {"lib.py": "from typing_extensions import deprecated\n@deprecated('use g')\ndef f() -> None: ...\n"},
     "domain": [["lib.f"]], "with": ["--enable-error-code", "deprecated"]},
]
WITNESS_PAIRS = ["disallow_untyped_defs", "strict_optional", "ignore_errors", "always_true"]


# Layout witnesses: the SAME non-conflicting per-module settings written in different layouts (pattern
# kinds, section order, file format) must give the same diagnostics for module a.x.b.
_LAYOUT_PROG = {"a/__init__.py": "", "a/x/__init__.py": "", "a/x/b.py": "# witness\ndef f(x): return x\nundefined_name\nimport nosuchmod\n"}


def layout_jobs(real_cli: bool) -> list[dict]:
    jobs = []
    for fam, (k1, ini1, toml1) in {
        "disable_error_code": ("disable_error_code", "name-defined", '["name-defined"]'),
        "enable_error_code": ("enable_error_code", "ignore-without-code", '["ignore-without-code"]'),
    }.items():
        k2, ini2, toml2 = "disallow_untyped_defs", "True", "true"
        prog = dict(_LAYOUT_PROG)
        if fam == "enable_error_code":
            prog["a/x/b.py"] = "# witness\ndef f(x): return x\ny: int = ''  # type: ignore\n"
        layouts: dict[str, dict[str, str]] = {}
        for label, p1, p2 in (("unstructured", "*.b", "a.*.b"), ("unstructured-reordered", "a.*.b", "*.b"),
                              ("structured", "a.*", "a.x.*"), ("structured-reordered", "a.x.*", "a.*"),
                              ("unstructured+concrete", "*.b", "a.x.b"), ("structured+unstructured", "a.*", "*.b")):
            # the first pattern carries the error-code list, the second the unrelated bool ...
            layouts[f"ini/{label}"] = {"mypy.ini": ini_text([("mypy", {}), (f"mypy-{p1}", {k1: ini1}), (f"mypy-{p2}", {k2: ini2})])}
            layouts[f"toml/{label}"] = {"pyproject.toml": toml_text(None, [(p1, {k1: toml1}), (p2, {k2: toml2})])}
            # ... and the other way round
            layouts[f"ini/{label}/swapped"] = {"mypy.ini": ini_text([("mypy", {}), (f"mypy-{p1}", {k2: ini2}), (f"mypy-{p2}", {k1: ini1})])}
        layouts["ini/one-concrete-section"] = {"mypy.ini": ini_text([("mypy", {}), ("mypy-a.x.b", {k1: ini1, k2: ini2})])}
        for label, files in layouts.items():
            tree = dict(prog)
            tree.update(files)
            jobs.append({"kind": "layout", "family": fam, "layout": label, "tree": tree, "real_cli": real_cli,
                         "args": ["--no-incremental", "--ignore-missing-imports", "a/x/b.py"]})
    return jobs


def judge_layouts(jobs: list[dict], results: list[dict], herr: list[str]) -> tuple[list[Violation], dict]:
    viols: list[Violation] = []
    stats: Counter[str] = Counter()
    fams: dict[str, list[int]] = defaultdict(list)
    for i, (j, r) in enumerate(zip(jobs, results)):
        if "error" in r:
            herr.append(f"layout witness {j['family']} {j['layout']}: {r['error']}")
            continue
        fams[j["family"]].append(i)
    for fam, idxs in sorted(fams.items()):
        stats["layout_runs"] += len(idxs)
        ref = next((i for i in idxs if jobs[i]["layout"] == "ini/one-concrete-section"), idxs[0])
        if not any(":" in ln and "error" in ln for ln in results[ref]["lines"]):
            herr.append(f"layout witness {fam}: reference run shows no diagnostic: {results[ref]['lines'][:2]}")
        for i in idxs:
            stats["layout_comparisons"] += i != ref
            if not same_diagnostics(results[i]["lines"], results[ref]["lines"])[0]:
                kind = jobs[i]["layout"].split("/", 1)[1]
                viols.append(Violation(f"layout|{fam}|{kind}",
                                       f"end-to-end: {fam} + disallow_untyped_defs written as {jobs[i]['layout']} gives "
                                       f"{results[i]['lines'][:3]}, as one concrete section {results[ref]['lines'][:3]}",
                                       {"lane": "d", "opt": "<layout>", "job": jobs[i]}))
    return viols, dict(stats)


def _witness_run(job: dict) -> dict:
    """One real mypy.main.main run (fresh process) in a private directory."""
    from mc.drivers import cli_inproc

    d = scratch("c17", "wit", f"{os.getpid()}")
    shutil.rmtree(d, ignore_errors=True)
    os.makedirs(os.path.join(d, ".git"))
    for rel, text in job["tree"].items():
        os.makedirs(os.path.dirname(os.path.join(d, rel)), exist_ok=True)
        with open(os.path.join(d, rel), "w") as f:
            f.write(text)
    for k in ("MYPY_CACHE_DIR", "MYPY_NUM_WORKERS", "MYPYPATH", "MYPY_CONFIG_FILE_DIR"):
        os.environ.pop(k, None)
    import io
    import sys

    import mypy.defaults

    mypy.defaults.USER_CONFIG_FILES[:] = []
    sys.stdout, sys.stderr = io.StringIO(), io.StringIO()  # this is a throw-away child: keep crash dumps quiet
    try:
        if job.get("real_cli"):
            from mc.drivers import cli_subprocess

            import mypy

            top = os.path.dirname(os.path.dirname(os.path.abspath(mypy.__file__)))  # the tree under test
            r = cli_subprocess(job["args"], d, env={"HOME": d, "PYTHONPATH": top})
        else:
            r = cli_inproc(job["args"], d, fixtures=True)
    finally:
        os.chdir("/")
        shutil.rmtree(d, ignore_errors=True)
    lines = [ln for ln in (r["stdout"] + r["stderr"]).splitlines() if ln.strip()]
    leaked = sys.stderr.getvalue()  # type: ignore[attr-defined]
    if "INTERNAL ERROR" in leaked or "Traceback (most recent call last)" in leaked or "INTERNAL ERROR" in "".join(lines):
        return {"error": "mypy crashed: " + (leaked or "".join(lines))[-300:]}
    return {"lines": lines, "status": r["status"]}


def run_witness_batch(batch: list[dict]) -> list[dict]:
    out = []
    for job in batch:
        try:
            out.append(run_isolated(_witness_run, job, timeout=600))
        except Exception as e:  # noqa: BLE001
            out.append({"error": f"{type(e).__name__}: {e}"[:500]})
    return out


def witness_jobs(table: dict, real_cli: bool) -> list[dict]:
    jobs = []
    for w in WITNESSES:
        name = w["opt"]
        if name not in table or (w.get("real_only") and not real_cli):
            continue
        dom = w.get("domain") or table[name]["domain"]
        common = ["--no-incremental"] + list(w.get("with", []))
        cases = equiv_cases(table, [name], module="m", base_args=common + ["m.py"], domains={name: dom},
                            section_module=w.get("section_module"))
        # the empty configuration is "value index -1"
        cases.append({"opt": name, "vi": -1, "source": "none", "spelling": "", "scope": "G",
                      "args": common + ["m.py"], "files": {}, "inline": None, "frag": None})
        seen_src: set[tuple] = set()
        for c in cases:
            if c["source"] == "inline" and w.get("no_inline"):
                continue
            if real_cli:
                # the bundled-typeshed lane costs seconds per run: one (canonical) spelling per source
                if (c["vi"], c["source"]) in seen_src:
                    continue
                seen_src.add((c["vi"], c["source"]))
            first = f"# mypy: {c['frag']}\n" if c["source"] == "inline" else "# witness\n"
            tree = {"m.py": first + w["prog"]}
            tree.update(w.get("extra", {}))
            tree.update(c["files"])
            jobs.append({"kind": "single", "opt": name, "vi": c["vi"], "source": c["source"],
                         "spelling": c["spelling"], "scope": c["scope"], "args": c["args"], "tree": tree,
                         "real_cli": real_cli, "value": dom[c["vi"]] if c["vi"] >= 0 else None,
                         "probe": {"args": c["args"], "files": c["files"], "inline": c["inline"], "modules": ["m"]}})
    return jobs


def run_probe_batch(batch: list[dict]) -> list[str]:
    """Ask mypy (snapshot seam) whether it accepts each witness configuration."""
    return [evaluate(j["probe"])["status"] for j in batch]


def witness_pair_jobs(table: dict, accepted: dict, real_cli: bool) -> list[dict]:
    """Conflicting pairs among {inline, [mypy-m], command line, [mypy]} for a few bool/list families."""
    jobs = []
    insts = [("inline", model.INLINE), ("concrete[m]", model.CONCRETE), ("cmdline", model.CMDLINE), ("global", model.GLOBAL)]
    for name in WITNESS_PAIRS:
        w = next((x for x in WITNESSES if x["opt"] == name), None)
        opt = table.get(name)
        if opt is None or w is None:
            continue
        if opt["kind"] == "bool":
            vals: list[Any] = [True, False]
        else:
            vals = [w["domain"][0], ["OTHER"]]
        for (ia, la), (ib, lb) in itertools.permutations(insts, 2):
            for va, vb in ((0, 1), (1, 0)):
                args = ["--no-incremental"] + list(w.get("with", [])) + ["m.py"]
                first = "# witness\n"
                secs: list[tuple[str, dict]] = []
                okp = True
                for inst, lvl, vi in ((ia, la, va), (ib, lb, vb)):
                    v = vals[vi]
                    if lvl == model.CMDLINE:
                        fa = flag_argvs(opt, v)
                        if not fa:
                            okp = False
                            break
                        args = args[:-1] + fa[0][1] + ["m.py"]
                    else:
                        lit = ini_literal(opt, v, +1)
                        if lvl == model.INLINE:
                            first = "# mypy: " + inline_texts(opt, name, v, +1)[0][1] + "\n"
                        elif lvl == model.CONCRETE:
                            secs.append(("mypy-m", {name: lit}))
                        else:
                            secs.append(("mypy", {name: lit}))
                if not okp or (name, "flag") not in accepted and model.CMDLINE in (la, lb):
                    continue
                if not any(s == "mypy" for s, _ in secs):
                    secs.insert(0, ("mypy", {}))
                tree = {"m.py": first + w["prog"], "mypy.ini": ini_text(secs)}
                tree.update(w.get("extra", {}))
                settings = [{"level": la, "pattern": "m", "pos": 0, "id": va, "inst": ia},
                            {"level": lb, "pattern": "m", "pos": 1, "id": vb, "inst": ib}]
                jobs.append({"kind": "pair", "opt": name, "settings": settings, "args": args, "tree": tree,
                             "real_cli": real_cli, "values": [vals[va], vals[vb]]})
    return jobs


def judge_witness(table: dict, jobs: list[dict], results: list[dict], herr: list[str]) -> tuple[list[Violation], dict, dict]:
    viols: list[Violation] = []
    stats: Counter[str] = Counter()
    by: dict[tuple[str, int], list[int]] = defaultdict(list)
    none_out: dict[str, list[str]] = {}
    for i, (j, r) in enumerate(zip(jobs, results)):
        if j["kind"] != "single":
            continue
        if "error" in r:
            herr.append(f"witness {j['opt']} via {j['source']}: {r['error']}")
            continue
        if not j["accepted"]:
            continue
        stats["witness_runs"] += 1
        if j["vi"] < 0:
            none_out[j["opt"]] = r["lines"]
        else:
            by[(j["opt"], j["vi"])].append(i)
    out_of: dict[tuple[str, int], list[str]] = {}
    sens: dict[str, set[str]] = defaultdict(set)
    accepted: dict[tuple[str, str], bool] = {}
    samples = []
    for (name, vi), idxs in sorted(by.items()):
        opt = table[name]
        ok = [i for i in idxs if jobs[i]["accepted"]]
        # per-module sources are only comparable for settings mypy accepts per module
        pm_ok = any(_kind(jobs[i]["source"]).startswith(("ini-module", "toml-module")) for i in ok)
        if not pm_ok:
            ok = [i for i in ok if jobs[i]["source"] != "inline"]
        if not ok:
            continue
        for i in ok:
            accepted[(name, _kind(jobs[i]["source"]).split("<")[0])] = True
        classes: list[list[int]] = []
        for i in ok:
            for cl in classes:
                if same_diagnostics(results[i]["lines"], results[cl[0]]["lines"])[0] and results[i]["status"] == results[cl[0]]["status"]:
                    cl.append(i)
                    break
            else:
                classes.append([i])
        stats["witness_groups"] += 1
        stats["witness_comparisons"] += len(ok) - 1
        ref = ok[0]
        out_of[(name, vi)] = results[ref]["lines"]
        sens[name].add(J(results[ref]["lines"]))
        if len(samples) < 2:
            samples.append({"option": name, "value": jobs[ref]["value"], "sources_agreeing": len(classes[0]),
                            "output": results[ref]["lines"][:3], "output_without_option": none_out.get(name, [])[:3]})
        if len(classes) > 1:
            obs = {i: str(ci) for ci, cl in enumerate(classes) for i in cl}
            labels = {i: _kind(jobs[i]["source"]) for i in ok}
            spell = {i: jobs[i]["spelling"] for i in ok}
            sig = partition_signature(f"equiv|{name}", labels, spell, obs)
            dev = classes[1][0]
            viols.append(Violation(sig,
                f"end-to-end {name}={jobs[ref]['value']!r}: {jobs[dev]['source']}[{jobs[dev]['spelling']}] prints "
                f"{results[dev]['lines'][:2]} but {jobs[ref]['source']}[{jobs[ref]['spelling']}] prints {results[ref]['lines'][:2]}",
                {"lane": "d", "opt": name, "job": jobs[dev], "reference": jobs[ref]}))
    # sensitivity: the witness must really react to its option
    insensitive = []
    for w in WITNESSES:
        n = w["opt"]
        if n in table and any(j["opt"] == n for j in jobs):
            outs = set(sens.get(n, set())) | ({J(none_out[n])} if n in none_out else set())
            if len(outs) < 2:
                insensitive.append(n)
    # conflicting pairs
    for j, r in zip(jobs, results):
        if j["kind"] != "pair":
            continue
        if "error" in r:
            herr.append(f"witness pair {j['opt']}: {r['error']}")
            continue
        name = j["opt"]
        win = model.doc_winner(j["settings"], "m")
        winner = next(s for s in j["settings"] if s["id"] == win)
        opt = table[name]
        # expected output = the single-source output for the winner's value
        dom = next(x for x in WITNESSES if x["opt"] == name).get("domain") or opt["domain"]
        wv = j["values"][0] if j["settings"][0]["id"] == win else j["values"][1]
        if wv in dom and (name, dom.index(wv)) in out_of:
            exp = out_of[(name, dom.index(wv))]
        else:
            # list families: the loser's element may legitimately stay in force (additive command line),
            # so a case is only judged when the winner carries the witness value
            stats["witness_pairs_not_judged_additive"] += 1
            continue
        stats["witness_pairs"] += 1
        if not same_diagnostics(r["lines"], exp)[0]:
            a, b = sorted(j["settings"], key=lambda s: s["level"])
            sig = f"prec|{a['inst'].replace('[m]', '[a.b]')}+{b['inst'].replace('[m]', '[a.b]')}|expected-winner={winner['inst'].replace('[m]', '[a.b]')}|opt=*|fmt=*"
            viols.append(Violation(sig,
                f"end-to-end {name}: {j['settings'][0]['inst']}={j['values'][0]!r} then {j['settings'][1]['inst']}="
                f"{j['values'][1]!r}: documented winner {winner['inst']}; expected {exp[:2]}, got {r['lines'][:2]}",
                {"lane": "d", "opt": name, "job": j}))
    return viols, {"stats": dict(stats), "insensitive_witnesses": insensitive, "samples": samples,
                   "families": sorted({j["opt"] for j in jobs})}, accepted


# =========================================================================== driver


def _pmap_batches(fn: Any, cases: list, size: int, herr: list[str], label: str, timeout: float = 1800) -> list:
    """Run fn over batches of cases on the pool; VERIF_SEED only permutes the submission order."""
    batches = chunked(cases, size)
    order = seeded_order(list(range(len(batches))), _TIER["seed"])
    out: list[Any] = [None] * len(cases)
    for k, _b, st, val in pmap(fn, [batches[i] for i in order], fresh=False, timeout=timeout):
        bi = order[k]
        if st != "ok":
            herr.append(f"{label} batch {bi} failed: {str(val)[:400]}")
            continue
        for j, r in enumerate(val):
            out[bi * size + j] = r
    if any(r is None for r in out):
        raise RuntimeError(f"lane {label} incomplete: " + "; ".join(herr[:3]))
    return out


def lane_a(table: dict, herr: list[str], names: list[str] | None = None) -> tuple[list[Violation], dict, dict, int]:
    cases = equiv_cases(table, names)
    results = _pmap_batches(run_equiv_batch, cases, 120, herr, "a")
    v, info, carry = judge_equiv(table, cases, results)
    return v, info, carry, len(cases)


def lane_b(table: dict, carry: dict, herr: list[str], names: list[str] | None = None) -> tuple[list[Violation], dict, int]:
    cases, skipped = prec_cases(table, carry, names)
    if not cases:
        return [], {"stats": {}, "skipped": dict(skipped), "pair_kinds": 0}, 0
    results = _pmap_batches(run_prec_batch, cases, 150, herr, "b")
    baseM = run_isolated(baseline, MOD)["M"]
    v, info = judge_prec(table, carry, cases, results, baseM)
    info["skipped"] = dict(skipped)
    return v, info, len(cases)


def lane_c(table: dict, info_a: dict, ctx: Ctx, herr: list[str], only: list[dict] | None = None,
           effects: dict | None = None) -> tuple[list[Violation], dict]:
    effects = effects or {}
    # tracked options, chosen from the introspected table: first per-module bool, first two per-module
    # list options whose whole effect is the list itself (plain replacement semantics)
    src = info_a["sources_of"]
    pm = [n for n in sorted(table) if table[n]["per_module"] and "ini-module" in src.get(n, ()) and "toml-module" in src.get(n, ())]
    bools = [n for n in pm if table[n]["kind"] == "bool"]
    lists = [n for n in pm if table[n]["kind"] == "list" and "error_code" not in n]
    if not bools or len(lists) < 2:
        raise RuntimeError("lane (c): no per-module bool / two per-module list options in the introspected table")
    names: dict[str, Any] = {"B": bools[0], "X": lists[0], "Y": lists[1]}
    # lane c3: the per-module list options whose effect is INCREMENTAL (their lane-(a) footprint has a
    # derived set next to the list itself), with distinct valid codes per section asked from mypy, and
    # the one bool for which apply_changes keeps a sticky side flag
    from mypy.errorcodes import error_codes

    inc = []
    for n in pm:
        if table[n]["kind"] == "list":
            fp = sorted(set(effects.get((n, 0), {})) - {n})
            if len(fp) == 1:
                inc.append((n, fp[0]))
    dis = next(((n, f) for n, f in inc if n.startswith("disable")), None)
    ena = next(((n, f) for n, f in inc if n.startswith("enable")), None)
    have_c3 = dis is not None and ena is not None and "ignore_missing_imports" in pm
    if have_c3:
        assert dis and ena
        on = sorted(c for c in error_codes if error_codes[c].default_enabled and error_codes[c].sub_code_of is None)
        off = sorted(c for c in error_codes if not error_codes[c].default_enabled and error_codes[c].sub_code_of is None)
        names.update(D=dis[0], Dset=dis[1], E=ena[0], Eset=ena[1], I="ignore_missing_imports",
                     Dcodes=on[:4], Ecodes=off[:4])
    depth = 3 if ctx.quick else 4
    maxsec = 3 if ctx.quick else 4
    mods = modules_upto(depth)
    base = run_isolated(baseline, MOD)["M"]
    defaults = {k: base[names[k]] for k in ("B", "X", "Y", "I") if k in names}
    names["Bdefault"] = defaults["B"]
    # which patterns does mypy accept?  (ask it: single-section configs)
    single = [{"lane": "c1", "fmt": "ini", "sections": [p], "assign": [not defaults["B"]]} for p in PATTERNS]
    rows = run_isolated(run_pattern_batch, {"cfgs": single, "names": names, "modules": mods})
    accepted = [p for p, r in zip(PATTERNS, rows) if not isinstance(r, dict)]
    obs_match = {(p, m): (r[mi] != defaults["B"]) for p, r in zip(PATTERNS, rows) if not isinstance(r, dict)
                 for mi, m in enumerate(mods)}
    cfgs: list[dict] = []
    if only is not None:
        cfgs = only
    else:
        for fmt in ("ini", "toml"):
            cfgs += pattern_configs(accepted, maxsec, "c1", fmt)
            if fmt == "ini" or ctx.thorough:
                cfgs += pattern_configs(accepted, min(maxsec, 3), "c2", fmt)
                if have_c3:
                    cfgs += pattern_configs(accepted, min(maxsec, 3), "c3", fmt)
    size = 60
    judge = {"defaults": defaults, "obs_match": [[p, m, v] for (p, m), v in obs_match.items()]}
    items = [{"cfgs": b, "names": names, "modules": mods, "judge": judge} for b in chunked(cfgs, size)]
    stats: Counter[str] = Counter()
    counts: Counter[str] = Counter()
    kept: dict[str, list[Violation]] = defaultdict(list)
    samples: list = []
    done = 0
    order = seeded_order(list(range(len(items))), ctx.seed)
    vals: dict[int, Any] = {}
    for k, _it, st, val in pmap(run_pattern_batch, [items[i] for i in order], fresh=False, timeout=1800):
        if st != "ok":
            herr.append(f"c batch {order[k]} failed: {str(val)[:300]}")
            continue
        vals[order[k]] = val
    for bi in sorted(vals):
        val = vals[bi]
        done += 1
        stats.update(val["stats"])
        counts.update(val["counts"])
        for sig, what, detail in val["kept"]:  # batches arrive in enumeration order: first kept = simplest
            if len(kept[sig]) < 3:
                kept[sig].append(Violation(sig, what, detail))
        if len(samples) < 3:
            samples += val["samples"]
    if done != len(items):
        raise RuntimeError("lane c incomplete: " + "; ".join(herr[:3]))
    v = [x for sig in sorted(kept) for x in kept[sig]]
    by_shape: dict[str, dict[str, Any]] = {}
    for (p, m), o in sorted(obs_match.items()):
        d = model.doc_matches(p, m)
        if o != d:
            e = by_shape.setdefault(_shape(p), {"pattern_module_pairs": 0, "docs_read_literally": "match" if d else "no-match",
                                                "mypy": "match" if o else "no-match", "examples": []})
            e["pattern_module_pairs"] += 1
            if len(e["examples"]) < 3:
                e["examples"].append(f"[mypy-{p}] ~ {m}")
    for k in list(stats):
        if k.startswith("doc_matching_would_change_result|shape="):
            sh = k.split("shape=", 1)[1]
            by_shape.setdefault(sh, {})["evaluations_where_literal_doc_matching_would_change_the_result"] = stats.pop(k)
    return v, {"stats": dict(stats), "tracked_options": {k: v0 for k, v0 in names.items() if k != "Bdefault"},
               "lanes": "c1 bool x all value assignments; c2 two id-valued options, each section sets X, Y or both; "
                        "c3 each section sets one of disable_error_code / enable_error_code (distinct code per section) / "
                        "ignore_missing_imports / an unrelated option (inheritance through silent sections)",
               "patterns_accepted": accepted,
               "patterns_rejected_by_mypy": [p for p in PATTERNS if p not in accepted],
               "modules": len(mods), "module_depth": depth, "max_sections": maxsec, "configs": len(cfgs),
               "matching_relation": "mypy's own, observed from one-section configs (which modules a pattern matches is "
                                    "not part of C17); only ordering among the applying sections is judged",
               "matching_discrepancies_not_judged": by_shape,
               "violating_evaluations_by_signature": dict(counts), "samples": samples[:3]}


def lane_d(table: dict, ctx: Ctx, herr: list[str], only: list[str] | None = None) -> tuple[list[Violation], dict]:
    global WITNESSES
    allw = WITNESSES
    if only is not None:
        WITNESSES = [w for w in allw if w["opt"] in only]
    try:
        viols: list[Violation] = []
        infos = {}
        for real in ([False, True] if ctx.thorough else [False]):
            jobs = witness_jobs(table, real)
            acc = _pmap_batches(run_probe_batch, jobs, 60, herr, "d-probe")
            n_rej = 0
            for j, st in zip(jobs, acc):
                j["accepted"] = st == "ok"
                n_rej += st != "ok"
            todo = [j for j in jobs if j["accepted"]]
            res_ok = _pmap_batches(run_witness_batch, todo, 6, herr, "d")
            it = iter(res_ok)
            res = [next(it) if j["accepted"] else {"lines": [], "status": None} for j in jobs]
            v1, info, accepted = judge_witness(table, jobs, res, herr)
            pj = witness_pair_jobs(table, accepted, real)
            pres = _pmap_batches(run_witness_batch, pj, 8, herr, "d-pairs") if pj else []
            v2, info2, _ = judge_witness(table, jobs + pj, res + pres, [])
            viols += v2
            lj = layout_jobs(real)
            lres = _pmap_batches(run_witness_batch, lj, 4, herr, "d-layouts")
            v3, linfo = judge_layouts(lj, lres, herr)
            viols += v3
            info2["stats"].update(linfo)
            info2["stats"]["witness_sources_rejected_by_mypy"] = n_rej
            infos["real_cli" if real else "inproc_fixture_stubs"] = info2
        return viols, infos
    finally:
        WITNESSES = allw


def run(ctx: Ctx) -> Result:
    # create the scratch root in THIS process: forked workers inherit it, so that the runner's atexit
    # sweep removes everything (a root first created inside a child would be leaked by os._exit)
    scratch("c17")
    table = build_table()
    _DEAD.clear()
    _DEAD.update(dead_fields())
    _TIER.update(thorough=ctx.thorough, seed=ctx.seed)
    herr: list[str] = []
    va, ia, carry, na = lane_a(table, herr)
    log(f"C17 (a): {na} cases, {len(va)} violations")
    va2, ia2 = lane_a2(table, ia, ctx, herr)
    log(f"C17 (a2): {ia2['cases']} cases, {len(va2)} violations")
    vb, ib, nb = lane_b(table, carry, herr)
    log(f"C17 (b): {nb} cases, {len(vb)} violations")
    vc, ic = lane_c(table, ia, ctx, herr, effects=carry["effects"])
    log(f"C17 (c): {ic['configs']} configs, {ic['stats'].get('evaluations')} evaluations, {len(vc)} violations")
    vd, id_ = lane_d(table, ctx, herr)
    log(f"C17 (d): {len(vd)} violations")
    violations = va + va2 + vb + vc + vd

    # ---- vacuity gates
    vac = []
    if len(ia["nontrivial"]) < 50:
        vac.append(f"only {len(ia['nontrivial'])} (option, value) groups changed a snapshot")
    if ia["stats"].get("comparisons_G", 0) < 500 or ia["stats"].get("comparisons_M", 0) < 500:
        vac.append("fewer than 500 cross-source comparisons")
    for lvl in ("inline", "concrete", "unstructured", "structured", "cmdline"):
        if not ib["stats"].get(f"winner_{lvl}"):
            vac.append(f"lane (b) never had a documented winner at level {lvl}")
    for lvl in ("concrete", "unstructured", "structured"):
        if not ic["stats"].get(f"winner_{lvl}"):
            vac.append(f"lane (c) never had a documented winner at level {lvl}")
    if not ic["stats"].get("module_matched_by_2_or_more_sections"):
        vac.append("lane (c): no module matched by two sections")
    for k, inf in id_.items():
        if inf["insensitive_witnesses"]:
            vac.append(f"lane (d/{k}): witness programs insensitive to their option: {inf['insensitive_witnesses']}")
        if inf["stats"].get("witness_comparisons", 0) < 20:
            vac.append(f"lane (d/{k}): fewer than 20 end-to-end comparisons")
    if vac:
        raise RuntimeError("vacuous exploration: " + "; ".join(vac))

    if not ia2["stats"].get("with_both"):
        vac.append("lane (a2): no grouping with a list-valued module key and a module named in several tables")
    if not ic["stats"].get("c3_winner_followed_by_an_applying_section_silent_about_the_option"):
        vac.append("lane (c3): no case where an applying later section is silent about the option")
    if vac:
        raise RuntimeError("vacuous exploration: " + "; ".join(vac))
    evaluations = na + ia2["cases"] + nb + ic["stats"].get("evaluations", 0) + sum(i["stats"].get("witness_runs", 0) + i["stats"].get("witness_pairs", 0) for i in id_.values())
    nontriv = (len(ia["nontrivial"]) + ib["stats"].get("pairs_judged", 0)
               + ic["stats"].get("module_matched_by_2_or_more_sections", 0)
               + ic["stats"].get("c3_winner_followed_by_an_applying_section_silent_about_the_option", 0)
               + ia2["stats"].get("with_list_valued_module_key", 0) + ia2["stats"].get("with_a_module_named_in_several_tables", 0)
               - ia2["stats"].get("with_both", 0))
    single_source = sorted(n for n in table if len(ia["sources_of"].get(n, ())) < 2)
    samples = [
        {"lane": "a", "option": "strict_optional", "sources_accepted": sorted(ia["sources_of"].get("strict_optional", ()))},
    ] + [dict(s, lane="a2") for s in ia2["samples"]] + [dict(s, lane="c") for s in ic["samples"][:2]] + [dict(s, lane="d") for i in id_.values() for s in i["samples"][:1]]
    cov = {
        "evaluations": evaluations,
        "distinct_nontrivial": nontriv,
        "rule": "(a) an (option, value) group is non-trivial iff the setting changes Options.snapshot() or the targets "
                "relative to the empty configuration and >= 2 sources accepted it; (b) every judged pair has two sources "
                "setting DIFFERENT values with distinguishable effects; (c) a (section set, module) case is non-trivial "
                "iff >= 2 of its sections apply to the module; a c3 case is non-trivial iff the documented winner for the "
                "option is followed by an applying section that is silent about it; (a2) a toml grouping is non-trivial iff "
                "it uses a list-valued module key or names a module in several tables",
        "exhaustive": True,
        "options_in_table": len(table),
        "options_with_2_or_more_sources": len(table) - len(single_source),
        "options_with_fewer_than_2_accepting_sources": single_source,
        "lane_a": {"cases": na, **ia["stats"], "nontrivial_groups": len(ia["nontrivial"]),
                   "distinct_observations": ia["distinct_observations"],
                   "accepted_by_source": ia["accepted_by_source"], "rejected_by_source": ia["rejected_by_source"],
                   "exclusions_decided_by_mypy (reason -> first example)": dict(sorted(ia["reject_reasons"].items())[:40]),
                   "exclusion_reason_count": len(ia["reject_reasons"]),
                   "snapshot_fields_not_compared": {
                       "describe the source": sorted(INTRINSIC_M),
                       "never read after option processing (asked from the source tree)": sorted(_DEAD)},
                   "inline_silently_accepts_non_per_module_options": ia["inline_silently_accepts_non_per_module_options"],
                   "module_source_changed_global_options": ia["module_source_changed_global_options"]},
        "lane_a2_toml_groupings": {k: v for k, v in ia2.items() if k != "samples"},
        "lane_b": {"cases": nb, **ib["stats"], "skipped": ib["skipped"], "pair_kinds": ib["pair_kinds"],
                   "instances": [i[0] for i in INSTANCES], "formats": ["ini", "toml"]},
        "lane_c": {k: v for k, v in ic.items() if k != "samples"},
        "lane_d": {k: {kk: vv for kk, vv in v.items() if kk != "samples"} for k, v in id_.items()},
        "bounds": f"(a) domains: bool both, int 0..2, count 1..2, choices all, str 2, lists of 1 and 2 elements; "
                  f"(b) 8 source instances, all ordered pairs x both value assignments x 2 formats; "
                  f"(c) <= {ic['max_sections']} sections over {len(ic['patterns_accepted'])} patterns, modules to depth {ic['module_depth']}",
        "samples": samples,
    }
    return Result(PROPERTY, LEVEL, cov, violations, assumptions=[
        "snapshot lanes replicate the three calls mypy.build makes between process_options and type checking "
        "(process_error_codes, clone_for_module, parse_mypy_comments+apply_changes); lane (d) checks the real "
        "mypy.main.main end to end for the witness families",
        "quick-tier witnesses run in-process with the repository's fixture stubs on both sides of every comparison; "
        "the thorough tier repeats them through `python -m mypy` with the bundled typeshed",
        "list-valued and counted options are additive on the command line (argparse append/count): for them a "
        "precedence case only demands that the winner's elements are in force",
        "the inline source is compared only for settings that mypy accepts in a per-module section",
    ], harness_errors=herr)


def replay(ctx: Ctx, rec: dict) -> Result:
    d = rec["detail"]
    scratch("c17")
    table = build_table()
    _DEAD.clear()
    _DEAD.update(dead_fields())
    _TIER.update(thorough=ctx.thorough, seed=0)
    herr: list[str] = []
    viols: list[Violation] = []
    if d["lane"] in ("a", "b"):
        va, ia, carry, _ = lane_a(table, herr, [d["opt"]])
        viols = va
        if d["lane"] == "b":
            viols, _, _ = lane_b(table, carry, herr, [d["opt"]])
    elif d["lane"] == "a2":
        _, ia, _, _ = lane_a(table, herr, None)
        viols, _ = lane_a2(table, ia, ctx, herr, only_rel=d["rel"])
    elif d["lane"] == "c":
        _, ia, carry, _ = lane_a(table, herr, None)
        viols, _ = lane_c(table, ia, ctx, herr, only=[d["cfg"]], effects=carry["effects"])
    elif d["lane"] == "d":
        viols, _ = lane_d(table, ctx, herr, only=[d["opt"]])
    key = rec["signature"].split("|opt=")[0]
    hit = [v for v in viols if v.signature.split("|opt=")[0] == key]
    for v in viols:
        print(("* " if v in hit else "  ") + v.signature, "::", v.what[:300])
    return Result(PROPERTY, LEVEL, {}, hit, harness_errors=herr)
