"""C05 - mypyc-compiled code behaves like the interpreted source (S3, exploration / differential).

Generated modules (families a-e, see mc/c05_gen.py) are compiled with mypyc from /repo's working tree
(mc.c15_build.build: mypycify + build_ext in scratch, lib-rt of the working tree, rebuilt on every run) and
the SAME source text is imported by the interpreter from a sibling directory.  A driver subprocess
(mc/c05_driver.py) evaluates every case against both and compares (result canon + type class | exception
type [+ payload], stdout, state of passed-in objects).  A driver killed by a signal is a violation, and so
is a call that returns normally but leaves an exception set.

Stated space per tier
  quick     (a) registry sweep with exact operand typing (+ literal operands of short_int primitives,
            condition-context variants of bool-valued primitives, isinstance(x, <builtin>)),
            (c) all 149 signatures with <= 3 parameters x all call shapes with <= 3 actuals (**dict with
            <= 2 keys) x {function, method, staticmethod, classmethod, __init__},
            (e) try/except, try/finally, try/except/finally x action per clause; 10 generator forms x all
            scripts of <= 2 operations; 17 nested-function forms; opt 0, single group.
  thorough  (a) additionally operand typing object / Optional[T] / Union[T, U] / precise element types,
            (b) 36 iterable kinds x 11-16 loop bodies, (d) native classes, (e) additionally
            try/except/else/finally and generator scripts of <= 3 operations; configurations per family: see
            configs().
  both      (h) every single-inheritance chain of native classes of depth <= 3 where each level has / has not
            class-level attribute defaults (a level with defaults also re-defines the nearest ancestor's one),
            an __init__, methods + property of its own (8 + 64 + 512 chains) x placement of the classes over a
            three-module package x layout: quick = {all in one module: single, separate; one module per class:
            single, multi_file, separate; first class | rest and rest | leaf: multi_file, separate} at opt 0
            (2184 placed chains, 9 placement x layout pairs); thorough adds the placement "whole chain in a
            library module", all placement x layout pairs at opt 0, and opt 3 for (one module, single group) and
            (one module per class, separate).
            Observed: construction (interpreter / compiled), reads of every level's attributes from the
            interpreter and from compiled code through every static type of the chain, writes, isinstance,
            copy / deepcopy / pickle.
            (o) evaluation order and eagerness: 330 forms (every specialiser registered in
            mypyc/irbuild/specialize.py except librt / attrs / dataclasses.field - the mapping is computed
            from the registry and reported as coverage.family_info.o.specializers - plus short-circuit,
            comparison, subscript, display, assignment-target, call-shape, default-argument, with / for / match /
            raise / assert forms); every operand position k is wrapped in a helper that logs k and raises
            ValueError('P:k') on demand; each form is run for "nobody raises" and "position r raises" (all r)
            x its value variants; oracle: same result / exception and same log.  quick: opt 0 single group;
            thorough: opt 0 + 3, multi_file and separate as well.

Debugging aids (never set by ./check): C05_ONLY=a,c (families), C05_STRIDE=n, C05_CONFIGS=0:single,3:separate,
C05_REPO=<scratch git worktree of /repo> (compile another tree: seeded-defect demonstrations).
"""

from __future__ import annotations

import os
import shutil
import signal
import time
from collections import Counter
from concurrent.futures import ThreadPoolExecutor
from typing import Any

from mc import c05_build as bld
from mc import c05_gen as gen
from mc import c05_gen2 as gen2
from mc.c05_driver import n_cases
from mc.common import Ctx, Result, Violation, log, scratch, seeded_order
from mc.kernel import pmap

PROPERTY = "C05"
LEVEL = "exploration"
EXPECTED_LIB_RT = os.path.join(bld.repo_root(), "mypyc", "lib-rt")
MODNAME = bld.MODNAME

MAX_CHUNK_CASES = 120_000


def _cpu_seconds() -> float:
    t = os.times()
    return t.children_user + t.children_system + t.user + t.system


# --------------------------------------------------------------------------- the plan (stated space)


def families(tier: str) -> tuple[dict[str, list[dict]], dict]:
    """{family: units} and generator-side information, per tier."""
    only = os.environ.get("C05_ONLY")  # debugging aid: comma-separated family letters
    quick = tier == "quick"
    fam: dict[str, list[dict]] = {}
    info: dict[str, Any] = {}
    fam["a"], info["a"] = gen.family_a(quick)
    fam["c"], info["c"] = gen.family_c(3, 3, 2)
    fam["e"], info["e"] = gen.family_e(quick)
    fam["h"], info["h"] = gen2.family_h(quick)
    fam["o"], info["o"] = gen2.family_o()
    info["o"]["specializers"] = gen2.specializer_coverage(fam["o"])
    if not quick:
        fam["b"], info["b"] = gen.family_b()
        fam["d"], info["d"] = gen.family_d()
    if only:
        fam = {k: v for k, v in fam.items() if k in only.split(",")}
    stride = int(os.environ.get("C05_STRIDE", "1"))  # debugging aid: every n-th unit only
    if stride > 1:
        fam = {k: v[::stride] for k, v in fam.items()}
    return fam, info


MODULE_CAPACITY = 120.0  # see c05_gen.weight

ALL_SIX = [("0", "single"), ("3", "single"), ("0", "multi_file"), ("3", "multi_file"), ("0", "separate"), ("3", "separate")]


def config_class(u: dict) -> str:
    f = u["family"]
    if f == "e":
        return "e-try" if u["name"].startswith("et_") else "e-gen"
    if f == "h":
        return "h-" + u["placement"]
    return f


def configs(tier: str, cls: str) -> list[tuple[str, str]]:
    dbg = os.environ.get("C05_CONFIGS")  # debugging aid, e.g. "0:single,3:separate"
    if dbg:
        return [tuple(c.split(":")) for c in dbg.split(",")]  # type: ignore[misc]
    if cls.startswith("h-"):
        # every placement of the classes over the modules x every layout: quick compiles the pairs of
        # gen2.H_LAYOUTS_QUICK at opt 0, thorough all pairs at opt 0 and the extreme placements at opt 3 too
        pl = cls[2:]
        if tier == "quick":
            return [("0", lay) for lay in gen2.H_LAYOUTS_QUICK[pl]]
        return [("0", lay) for lay in bld.LAYOUTS] + {"one": [("3", "single")], "split-all": [("3", "separate")]}.get(pl, [])
    if tier == "quick":
        return [("0", "single")]
    if cls == "o":
        return [("0", "single"), ("3", "single"), ("3", "multi_file"), ("0", "separate")]
    return {
        "a": [("0", "single"), ("3", "single")],
        "b": [("0", "single"), ("3", "single"), ("3", "multi_file")],
        "c": [("0", "single"), ("3", "single"), ("3", "multi_file"), ("0", "separate")],
        "d": ALL_SIX,
        "e-try": [("0", "single"), ("3", "single")],
        "e-gen": ALL_SIX,
    }[cls]


def plan(tier: str) -> tuple[list[dict], dict[str, list[dict]], dict]:
    fam, info = families(tier)
    jobs = []
    c_names = sorted({c for c in info.get("a", {}).get("entries", {}).values() if c})
    by_cls: dict[str, list[dict]] = {}
    for f in sorted(fam):
        for u in fam[f]:
            by_cls.setdefault(config_class(u), []).append(u)
    for cls in sorted(by_cls):
        mods = gen.pack(by_cls[cls], MODULE_CAPACITY)
        for opt, layout in configs(tier, cls):
            for k, units in enumerate(mods):
                jobs.append({"id": f"{cls}{k:02d}-o{opt}-{layout}", "family": units[0]["family"], "units": units,
                             "opt": opt, "layout": layout, "c_names": c_names if cls == "a" else [],
                             # family h is generated well-typed: mypyc's own type check is the only one needed
                             "filter": not cls.startswith("h-"),
                             "support": gen.support_modules(units)})
    return jobs, fam, info


# --------------------------------------------------------------------------- one module: build + evaluate


def _chunks(units: list[dict]) -> list[list[dict]]:
    out: list[list[dict]] = []
    cur: list[dict] = []
    load = 0
    for u in units:
        c = u["_cases"]
        if cur and load + c > MAX_CHUNK_CASES:
            out.append(cur)
            cur, load = [], 0
        cur.append(u)
        load += c + 20
    if cur:
        out.append(cur)
    return out


def module_pipeline(job: dict) -> dict:
    """Runs in a forked child: filter + build + evaluate + remove the build tree."""
    d = os.path.join(job["work"], job["id"])
    t0 = time.time()
    try:
        b = bld.build_module({"dir": d, "units": job["units"], "opt": job["opt"], "layout": job["layout"],
                              "c_names": job["c_names"], "support": job["support"], "timeout": job["build_timeout"],
                              "filter": job.get("filter", True)})
        if not b["ok"]:
            return {"id": job["id"], "build": b, "chunks": []}
        if not b["kept"]:
            return {"id": job["id"], "build": b, "chunks": [], "cases": {}}
        if b["lib_rt"] != EXPECTED_LIB_RT:
            return {"id": job["id"], "build": dict(b, ok=False, stage="lib-rt", log=f"-I{b['lib_rt']!r}"), "chunks": []}
        kept = set(b["kept"])
        units = []
        for u in job["units"]:
            if u["name"] in kept:
                u = dict(u, module=MODNAME)
                u["_cases"] = n_cases(u)
                units.append(u)
        items = [{"dir": d, "id": f"{job['id']}-{k}", "units": ch, "build_dir": b["build_dir"], "ref_dir": b["ref_dir"],
                  "modules": b["modules"], "timeout": job["eval_timeout"]} for k, ch in enumerate(_chunks(units))]
        t1 = time.time()
        with ThreadPoolExecutor(min(4, max(1, len(items)))) as ex:
            outs = list(ex.map(bld.run_chunk, items))
        return {"id": job["id"], "build": b, "chunks": outs, "eval_seconds": round(time.time() - t1, 2),
                "seconds": round(time.time() - t0, 2), "cases": {u["name"]: u["_cases"] for u in units}}
    finally:
        shutil.rmtree(d, ignore_errors=True)


# --------------------------------------------------------------------------- violations


def _signame(n: int) -> str:
    try:
        return signal.Signals(n).name
    except ValueError:
        return f"signal{n}"


def _unit_detail(u: dict, job: dict) -> dict:
    keep = {k: u[k] for k in ("name", "family", "construct", "sigkey", "src", "doms", "calls", "alias", "shapes", "wrap",
                              "prelude", "imports", "support", "support_parts", "call_tags", "placement", "depth",
                              "pattern") if k in u}
    return {"unit": keep, "opt": job["opt"], "layout": job["layout"]}


def violation_from_mismatch(u: dict, job: dict, m: dict) -> Violation:
    sig = f"{u['family']}|{u['sigkey']}|{m['cause']}"
    if u["family"] == "h":
        # the layout is part of the cause: the three layouts are three different code paths of irbuild / codegen
        sig = f"h|{job['layout']}|{m['cause']}"
    args = ", ".join(m["args"])
    what = (f"[{u['construct']}; opt {job['opt']}, {job['layout']}] {m['call']}"
            + (f" with ({args})" if m["args"] else "") + (" [a1 is a0]" if m.get("alias") else "")
            + f": compiled {m['compiled']}; interpreter {m['reference']}"
            + (f"; passed-in objects afterwards compiled {m['comp_state']} vs {m['ref_state']}"
               if m["kind"] == "mutation" or u["family"] == "o" else "")
            + f" ({m['kind']}, {m['count']} cases of this unit)")
    if len(what) > 900:
        what = what[:900] + "..."
    d = _unit_detail(u, job)
    d.update({"case": m["case"], "kind": m["kind"], "cause": m["cause"], "args": m["args"], "call": m["call"], "alias": m.get("alias", False),
              "compiled": m["compiled"], "reference": m["reference"]})
    return Violation(sig, what, d)


def violation_from_crash(u: dict, job: dict, c: dict) -> Violation:
    sn = _signame(c["signal"])
    sig = f"{u['family']}|{u['sigkey']}|crash-{sn}"
    what = (f"[{u['construct']}; opt {job['opt']}, {job['layout']}] evaluating unit {u['name']} killed the driver "
            f"with {sn}" + (f" at case {c['case']}" if c["case"] is not None else " (case not localised)"))
    d = _unit_detail(u, job)
    d.update({"case": c["case"], "kind": "crash", "signal": sn})
    return Violation(sig, what, d)


# --------------------------------------------------------------------------- run


def run(ctx: Ctx) -> Result:
    t_start = time.time()
    cpu0 = _cpu_seconds()
    jobs, fam, info = plan(ctx.tier)
    work = scratch("c05", f"run-{os.getpid()}")
    for j in jobs:
        j["work"] = work
        j["build_timeout"] = 1500 if ctx.quick else 3000
        j["eval_timeout"] = 900 if ctx.quick else 3000
    # biggest first (deterministic), then the seed may permute
    order = sorted(range(len(jobs)), key=lambda i: (-sum(gen.weight(u) for u in jobs[i]["units"])
                                                    * (3 if jobs[i]["opt"] == "3" else 1), i))
    jobs = seeded_order([jobs[i] for i in order], ctx.seed)
    log(f"C05 {ctx.tier}: {len(jobs)} module builds, {sum(len(v) for v in fam.values())} units")
    outs: dict[str, dict] = {}
    herr: list[str] = []
    try:
        for _i, job, st, val in pmap(module_pipeline, jobs, fresh=True, timeout=5400):
            if st != "ok":
                herr.append(f"module {job['id']}: {val[0]}: {str(val[1])[-1500:]}")
                continue
            outs[job["id"]] = val
            b = val["build"]
            log(f"  {job['id']}: {len(job['units'])} units, " + (f"filter {b['filter_seconds']}s build {b['seconds']}s "
                f"({b['c_lines']} C lines) eval {val.get('eval_seconds')}s, {sum(val.get('cases', {}).values())} cases"
                if b["ok"] else f"BUILD FAILED at {b.get('stage')}") + f" [t+{time.time() - t_start:.0f}s]")
    finally:
        shutil.rmtree(work, ignore_errors=True)

    by_id = {j["id"]: j for j in jobs}
    # generation order (simplest first) decides which manifestation of a signature is reported first
    global_pos = {u["name"]: i for i, u in enumerate(u for f in sorted(fam) for u in fam[f])}
    tot: Counter[str] = Counter()
    fam_evals: Counter[str] = Counter()
    fam_units: Counter[str] = Counter()
    cfg_evals: Counter[str] = Counter()
    outcome_kinds: dict[str, set] = {}
    rejected: dict[str, str] = {}
    reached: set[str] = set()
    found: list[tuple[tuple, Violation]] = []
    samples: list[dict] = []
    msg_samples: list[dict] = []
    build_seconds: dict[str, float] = {}
    evaluated: set[tuple[str, str]] = set()
    expected: set[tuple[str, str]] = set()
    failed_builds = []
    for jid in sorted(outs):
        o = outs[jid]
        job = by_id[jid]
        b = o["build"]
        if not b["ok"]:
            failed_builds.append(f"{jid}: {b.get('stage')}: {str(b.get('log'))[-1200:]}")
            continue
        build_seconds[jid] = b["seconds"]
        reached.update(b["reached"])
        for n, why in b["rejected"].items():
            rejected.setdefault(n, why)
        units = {u["name"]: u for u in job["units"]}
        for n in b["kept"]:
            expected.add((jid, n))
        pos = global_pos
        for ch in o["chunks"]:
            herr.extend(ch["harness_errors"])
            for c in ch["crashes"]:
                u = units[c["unit"]]
                found.append(((u["family"], pos[u["name"]], jid, 0), violation_from_crash(u, job, c)))
                evaluated.add((jid, c["unit"]))
            for n, r in ch["results"].items():
                u = units[n]
                evaluated.add((jid, n))
                f = u["family"]
                tot["n"] += r["n"]
                tot["exceptions"] += r["exceptions"]
                tot["mutations"] += r["mutations"]
                tot["stdout"] += r["stdout"]
                tot["bad"] += r["bad"]
                tot["message_only"] += r["message_only"]
                tot["nontrivial"] += r["exceptions"] + r["mutations"] + r["stdout"]
                fam_evals[f] += r["n"]
                fam_units[f] += 1
                cfg_evals[f"opt{job['opt']}/{job['layout']}"] += r["n"]
                outcome_kinds.setdefault(f, set()).update(r["outcomes"])
                for j, m in enumerate(r["mismatches"]):
                    found.append(((f, pos[n], jid, j + 1), violation_from_mismatch(u, job, m)))
                for ms in r["message_samples"]:
                    if len(msg_samples) < 12 and all(x["interpreted"] != ms["interpreted"] for x in msg_samples):
                        msg_samples.append(dict(ms, construct=u["construct"]))
                if r["sample"] and len([s for s in samples if s["family"] == f]) < 2:
                    samples.append(dict(r["sample"], family=f, construct=u["construct"]))
    found.sort(key=lambda t: t[0])
    violations = [v for _, v in found]
    if failed_builds:
        raise RuntimeError("mypyc build failed for generated modules (nothing is claimed):\n" + "\n".join(failed_builds[:3]))
    missing = sorted(expected - evaluated)
    if missing and not herr:
        raise RuntimeError(f"units never evaluated: {missing[:5]}")

    # registry coverage of family (a)
    a_info = info.get("a", {})
    entries = a_info.get("entries", {})
    excluded = a_info.get("excluded", {})
    live = {e: c for e, c in entries.items() if e not in excluded}
    with_c = {e: c for e, c in live.items() if c}
    unreached = sorted(e for e, c in with_c.items() if c not in reached)
    # vacuity gate
    vac = []
    if tot["n"] < 10000 and not herr:
        vac.append(f"only {tot['n']} evaluations")
    if tot["exceptions"] == 0 or (tot["mutations"] == 0 and ("a" in fam or "b" in fam)):
        vac.append("no case raised / no case mutated a passed-in object")
    if "a" in fam and len(reached) < 0.6 * len(set(with_c.values())):
        vac.append(f"only {len(reached)} of {len(set(with_c.values()))} primitive C functions appear in the generated C")
    if vac and not os.environ.get("C05_ONLY"):
        raise RuntimeError("vacuous exploration: " + "; ".join(vac))

    cov = {
        "evaluations": tot["n"],
        "distinct_nontrivial": tot["nontrivial"],
        "rule": "case = (module config, generated unit, argument tuple / call shape / script), all distinct by "
                "construction; non-trivial iff the interpreter raises, or an object passed in is changed by the call, "
                "or the call writes to stdout (counted once per such property)",
        "exhaustive": not missing and not herr,
        "samples": samples[:8],
        "tier_space": {f: len(v) for f, v in sorted(fam.items())},
        "units_evaluated_by_family": dict(sorted(fam_units.items())),
        "evaluations_by_family": dict(sorted(fam_evals.items())),
        "evaluations_by_config": dict(sorted(cfg_evals.items())),
        "module_builds": len(build_seconds),
        "interpreter_raised": tot["exceptions"],
        "calls_mutating_a_passed_in_object": tot["mutations"],
        "calls_writing_stdout": tot["stdout"],
        "mismatching_evaluations": tot["bad"],
        "message_only_differences": tot["message_only"],
        "message_only_samples": msg_samples,
        "distinct_outcome_kinds": {f: len(k) for f, k in sorted(outcome_kinds.items())},
        "exception_types_seen": sorted({k for ks in outcome_kinds.values() for k in ks if not k.startswith("value:")}),
        "candidates_rejected_by_mypy_or_mypyc": len(rejected),
        "rejected_samples": dict(list(sorted(rejected.items()))[:6]),
        "rejected_in_families_h_o": {n: w for n, w in sorted(rejected.items()) if n.startswith(("hh_", "o_"))},
        "registry": {
            "entries": len(entries),
            "excluded_by_rule": dict(Counter(excluded.values())),
            "entries_with_candidates": len(live),
            "primitive_c_functions": len(set(with_c.values())),
            "primitive_c_functions_in_generated_c": len(reached),
            "entries_whose_c_function_is_not_in_generated_c": unreached,
        } if "a" in fam else {},
        "family_info": {k: v for k, v in info.items() if k != "a"},
        "build_seconds_max": max(build_seconds.values()) if build_seconds else 0,
        "build_seconds_sum": round(sum(build_seconds.values()), 1),
        "wall_seconds": round(time.time() - t_start, 1),
        "cpu_seconds_total": round(_cpu_seconds() - cpu0, 1),
        "lib_rt_include_dir": EXPECTED_LIB_RT,
    }
    return Result(PROPERTY, LEVEL, cov, violations, assumptions=[
        "64-bit Linux, gcc, CPython 3.12 of /venv; PYTHONHASHSEED=0; driver runs with PYTHONMALLOC=debug",
        "reference = the same generated source text imported by the interpreter under the same module name",
        "exception messages are compared only for exceptions raised by the generated program itself (marker 'P:' "
        "or exception classes of the module) and for KeyError/IndexError payloads; other message differences are "
        "counted as message_only_differences",
        "ill-typed calls (values outside the declared parameter types) are never generated; containers are declared "
        "with Any element types unless the unit says otherwise",
        "candidate programs rejected by mypy or by mypyc's own checks are outside the space (counted)",
        "operand domains avoid int repeat/shift counts and exponents between 2**20 and 2**61 (they would allocate "
        "gigabytes in both implementations)",
    ], harness_errors=herr + ([f"{len(missing)} units not evaluated"] if missing else []))


# --------------------------------------------------------------------------- replay


def replay(ctx: Ctx, rec: dict) -> Result:
    d = rec["detail"]
    u = dict(d["unit"])
    work = scratch("c05", f"replay-{os.getpid()}")
    job = {"id": "replay", "family": u["family"], "units": [u], "opt": d["opt"], "layout": d["layout"], "c_names": [],
           "support": gen.support_modules([u]), "work": work, "build_timeout": 1500, "eval_timeout": 900}
    viol: list[Violation] = []
    try:
        from mc.kernel import run_isolated

        bdir = os.path.join(work, "replay")
        b = run_isolated(bld.build_module, {"dir": bdir, "units": [u], "opt": d["opt"], "layout": d["layout"], "c_names": [],
                                            "support": job["support"], "filter": False}, timeout=1800)
        if not b["ok"]:
            raise RuntimeError("replay build failed:\n" + str(b.get("log"))[-3000:])
        u["module"] = MODNAME
        item = {"dir": bdir, "id": "replay", "units": [u], "build_dir": b["build_dir"], "ref_dir": b["ref_dir"],
                "modules": b["modules"], "timeout": 900}
        if d.get("case") is not None:
            item["only"] = {u["name"]: [d["case"]]}
        out = bld.run_chunk(item)
        for c in out["crashes"]:
            viol.append(violation_from_crash(u, job, c))
        for r in out["results"].values():
            for m in r["mismatches"]:
                viol.append(violation_from_mismatch(u, job, m))
        for v in viol:
            print(v.what)
        if out["harness_errors"]:
            raise RuntimeError("; ".join(out["harness_errors"]))
    finally:
        shutil.rmtree(work, ignore_errors=True)
    return Result(PROPERTY, LEVEL, {}, viol)

