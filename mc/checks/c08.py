"""C08 — the type lattice obeys its laws (S3: bounded-exhaustive enumeration at nesting depth <= 1).

Seam: `is_subtype`, `is_proper_subtype`, `is_same_type`, `join_types`, `meet_types`,
`make_simplified_union` of the real tree, called on types produced by ONE real `mypy.build.build`
(bundled typeshed) of a generated universe module (mc/c08_universe.py).

Space (all counts are measured and reported):
  * group "main" = ~51 atoms + every unary constructor over the atoms (Q: a 21-atom core) + every binary
    constructor over a 12-atom core (Q: 8 atoms); ~1110 (Q ~ 500) types;
  * group "tuples" = PEP 646 variadic tuples tuple[P.., *tuple[V, ...], S..] for every prefix and suffix of
    length 0..2, every fixed tuple of length 0..3 over a small element core, plus related types
    (object, Never, NT, Sequence[..], ..); ~770 (Q ~ 177) types;  all laws below are enumerated over all
    pairs / chains WITHIN each group;
  * ALL ordered pairs: reflexivity (diagonal), proper => subtype (and is_same_type => proper and
    subtype, which is the same law through the definition of is_same_type), join upper bound, meet
    lower bound (both argument orders are separate ordered pairs);
  * ALL triples s <: t <: u over Any-free types, via bitset rows of the N x N matrix (transitivity);
  * ALL ordered item sequences (with repetition) of length <= 4 (Q 3) over a 20-type core: the
    simplified union is equivalent (mutual subtyping) to the unsimplified one, for every order, and
    the results of different orders of one multiset are equivalent to each other;
  * cache independence: every query (5 ops x all ordered pairs) answered (i) right after
    reset_all_subtype_caches(), (ii) inside a forward sweep and (iii) inside a reverse sweep in which
    flagged variants of the subtype checks (other SubtypeKinds) are interleaved as perturbing queries;
    (iv) after each single other query (incl. perturbing ones) over a 23-type core (Q: 10 types).
The oracle is the law itself (an algebraic identity between answers of the real functions); there is
no re-implementation of any mypy rule here.

What is NOT demanded (the statement does not say it): join(s,t) == join(t,s) -- both only have to be
upper bounds; the number of order-sensitive joins is reported as a statistic.  Transitivity is only
demanded on Any-free types (bare `type`, which the subtype visitor treats as Type[Any], counts as
Any-containing).

Failing pairs are reduced to causes before they are reported: a failing pair one of whose component
pairs (a in {S} + parts(S), b in {T} + parts(T)) is itself failing is a *lifted* manifestation of
that smaller pair; the remaining root pairs are grouped by (law, top-level shapes) and each group is
reported once, with signature = law + exact type strings of its first (simplest) member; all members
are listed in the detail.
"""

from __future__ import annotations

import itertools
import time
from collections import Counter, OrderedDict
from typing import Any

from mc import c08_laws as cl
from mc import c08_universe as cu
from mc.common import Ctx, Result, Violation, log, scratch, seeded_order
from mc.kernel import pmap, run_isolated, ExecError

PROPERTY = "C08"
LEVEL = "exploration"

_U: cu.Universe | None = None  # set in the parent before forking; children inherit it

ROWS_PER_BLOCK = 8
MAX_MEMBERS = 40


def universe(tier: str) -> cu.Universe:
    global _U
    if _U is None or _U.tier != tier:
        _U = cu.load(tier, scratch("c08", "universe-" + tier))
    return _U


# --------------------------------------------------------------------------- pair laws + cache sweeps


def eval_block(job: dict) -> dict:
    """All ordered pairs (s, t) for s in job['rows'], t in the whole group job['group']; fresh fork."""
    U = _U
    assert U is not None
    T = U.types
    cols: list[int] = U.groups[job["group"]]
    rcols = cols[::-1]
    rows: list[int] = job["rows"]
    fns = cl._fns()
    f_sub, f_proper, f_same, f_join, f_meet = fns["sub"], fns["proper"], fns["same"], fns["join"], fns["meet"]
    perturb = [fns[p] for p in cl.PERTURB]
    reset = cl.reset_caches
    out: dict[str, Any] = {
        "rows": {}, "prows": {}, "fails": [], "mismatch": [], "exc": [], "stats": Counter(),
        "join_results": set(), "meet_results": set(), "join_asym": [],
    }
    fails = out["fails"]
    stats = out["stats"]

    def guarded(fn: Any, s: int, t: int, op: str, a: Any, b: Any) -> Any:
        try:
            return fn(a, b)
        except Exception as e:  # noqa: BLE001 - a crash of the real function: recorded, not compared
            out["exc"].append((op, s, t, f"{type(e).__name__}: {e}"))
            return None

    # ---- pass R: every query right after a cache reset
    ansR: dict[tuple[int, int], tuple] = {}
    for s in rows:
        S = T[s]
        for t in cols:
            X = T[t]
            reset()
            a0 = bool(guarded(f_sub, s, t, "sub", S, X))
            reset()
            a1 = bool(guarded(f_proper, s, t, "proper", S, X))
            reset()
            a2 = bool(guarded(f_same, s, t, "same", S, X))
            reset()
            a3 = str(guarded(f_join, s, t, "join", S, X))
            reset()
            a4 = str(guarded(f_meet, s, t, "meet", S, X))
            ansR[(s, t)] = (a0, a1, a2, a3, a4)
    crashed = {(e[1], e[2]) for e in out["exc"]}

    # ---- pass F: forward sweep (perturbing queries first, then the compared queries, then the laws)
    reset()
    obj_str = "object"
    for s in rows:
        S = T[s]
        bits = 0
        pbits = 0
        for t in cols:
            X = T[t]
            if (s, t) in crashed:
                continue
            for pf in perturb:
                try:
                    pf(S, X)
                except Exception as e:  # noqa: BLE001
                    out["exc"].append(("perturb", s, t, f"{type(e).__name__}: {e}"))
            a = f_sub(S, X)
            p = f_proper(S, X)
            sm = f_same(S, X)
            j = f_join(S, X)
            m = f_meet(S, X)
            js, ms = str(j), str(m)
            got = (bool(a), bool(p), bool(sm), js, ms)
            ref = ansR[(s, t)]
            if got != ref:
                for k, op in enumerate(cl.OPS):
                    if got[k] != ref[k]:
                        out["mismatch"].append(("forward", op, s, t, ref[k], got[k], None, job["group"]))
            if a:
                bits |= 1 << t
            if p:
                pbits |= 1 << t
            if p and not a:
                fails.append(("proper_implies_subtype", s, t, "", ""))
            if sm and not (a and p):
                fails.append(("same_implies_subtype", s, t, "", ""))
            if not f_sub(S, j):
                fails.append(("join_upper_bound", s, t, "left", js))
            if not f_sub(X, j):
                fails.append(("join_upper_bound", s, t, "right", js))
            if not f_sub(m, S):
                fails.append(("meet_lower_bound", s, t, "left", ms))
            if not f_sub(m, X):
                fails.append(("meet_lower_bound", s, t, "right", ms))
            if s == t:
                if not a:
                    fails.append(("reflexivity", s, t, "sub", ""))
                if not p:
                    fails.append(("reflexivity", s, t, "proper", ""))
                if not sm:
                    fails.append(("reflexivity", s, t, "same", ""))
            else:
                # statistic only (not a stated law): is join(s, t) equivalent to join(t, s)?
                j2 = f_join(X, S)
                if not f_sub(j, j2):
                    stats["join_order_sensitive"] += 1
                    if len(out["join_asym"]) < 3:
                        out["join_asym"].append((s, t, js, str(j2)))
                if a or js != obj_str or not ms == "Never":
                    stats["nontrivial_pairs"] += 1
                if a:
                    stats["sub_true_offdiag"] += 1
                if p:
                    stats["proper_true_offdiag"] += 1
                if ms != "Never" and ms != str(S) and ms != str(X):
                    stats["meet_new_type"] += 1
                if js != obj_str and js != str(S) and js != str(X):
                    stats["join_new_type"] += 1
            out["join_results"].add(js)
            out["meet_results"].add(ms)
            stats["pairs"] += 1
        out["rows"][s] = bits
        out["prows"][s] = pbits
    pos, neg = cl.cache_sizes()
    stats["cache_pos_entries_after_forward"] = pos
    stats["cache_neg_entries_after_forward"] = neg

    # ---- pass B: reverse sweep
    reset()
    for s in reversed(rows):
        S = T[s]
        for t in rcols:
            X = T[t]
            if (s, t) in crashed:
                continue
            for pf in reversed(perturb):
                try:
                    pf(S, X)
                except Exception:  # noqa: BLE001 - already recorded in the forward pass
                    pass
            got = (str(f_meet(S, X)), str(f_join(S, X)), bool(f_same(S, X)), bool(f_proper(S, X)), bool(f_sub(S, X)))
            got = got[::-1]
            ref = ansR[(s, t)]
            if got != ref:
                for k, op in enumerate(cl.OPS):
                    if got[k] != ref[k]:
                        out["mismatch"].append(("reverse", op, s, t, ref[k], got[k], None, job["group"]))
    stats["queries_compared"] = 3 * 5 * len(rows) * len(cols)
    out["stats"] = dict(stats)
    out["join_results"] = len(out["join_results"])
    out["meet_results"] = len(out["meet_results"])
    return out


# --------------------------------------------------------------------------- cache mode (iv)


def cache_queries(U: cu.Universe) -> tuple[list[tuple[str, int, int]], list[tuple[str, int, int]]]:
    core = cu.CACHE_CORE if U.tier == "thorough" else cu.CACHE_CORE_Q
    idx = [U.index[l] for l in core if l in U.index]
    q2 = [(op, s, t) for s in idx for t in idx for op in cl.OPS]
    q1 = [(op, s, t) for s in idx for t in idx for op in cl.OPS + cl.PERTURB]
    return q1, q2


def eval_cache_pairs(job: dict) -> dict:
    """For each q1 in job['q1'] and EVERY q2: reset; q1; q2 -- compare with q2 right after a reset."""
    U = _U
    assert U is not None
    T = U.types
    fns = cl._fns()
    reset = cl.reset_caches
    _q1all, q2 = cache_queries(U)
    ref = []
    for op, s, t in q2:
        reset()
        ref.append(cl.answer(fns, op, T[s], T[t]))
    mism = []
    n = 0
    influenced = 0
    skipped = 0
    for op1, s1, t1 in job["q1"]:
        f1 = fns[op1]
        A, B = T[s1], T[t1]
        reset()
        f1(A, B)
        if cl.cache_sizes() == (0, 0):
            # q1 left the caches exactly as a reset leaves them: every q2 answer is the reference by
            # construction; not executed, counted separately
            skipped += len(q2)
            continue
        influenced += 1
        for k, (op, s, t) in enumerate(q2):
            reset()
            f1(A, B)
            got = cl.answer(fns, op, T[s], T[t])
            n += 1
            if got != ref[k]:
                mism.append(("after_one", op, s, t, ref[k], got, (op1, s1, t1), None))
    return {"mismatch": mism, "pairs": n, "q1_leaving_cache_entries": influenced, "pairs_skipped_q1_left_no_cache_entry": skipped}


# --------------------------------------------------------------------------- union simplification


def eval_unions(job: dict) -> dict:
    from mypy.subtypes import is_subtype
    from mypy.typeops import make_simplified_union
    from mypy.types import UnionType, get_proper_type

    U = _U
    assert U is not None
    T = U.types
    out: dict[str, Any] = {"fails": [], "mismatch": [], "stats": Counter(), "outcomes": set()}
    st = out["stats"]
    canon: dict[tuple[int, ...], Any] = {}
    for seq in job["seqs"]:
        items = [T[i] for i in seq]
        cl.reset_caches()
        simp0 = str(make_simplified_union(list(items)))
        simp = make_simplified_union(list(items))
        if str(simp) != simp0:
            out["mismatch"].append(("union_sweep", "simplify", list(seq), simp0, str(simp)))
        unsimp = UnionType.make_union(list(items))
        st["sequences"] += 1
        ps = get_proper_type(simp)
        n_after = len(ps.items) if isinstance(ps, UnionType) else 1
        if n_after < len(set(seq)):
            st["simplified_something"] += 1
        out["outcomes"].add(str(simp))
        if not is_subtype(simp, unsimp):
            out["fails"].append(("union_simplification", list(seq), "simplified !<: unsimplified", str(simp)))
        if not is_subtype(unsimp, simp):
            out["fails"].append(("union_simplification", list(seq), "unsimplified !<: simplified", str(simp)))
        key = tuple(sorted(seq))
        if key == tuple(seq):
            canon[key] = simp
        else:
            c = canon.get(key)
            if c is None:
                c = canon[key] = make_simplified_union([T[i] for i in key])
            st["order_comparisons"] += 1
            if not (is_subtype(simp, c) and is_subtype(c, simp)):
                out["fails"].append(("union_order_independence", list(seq), "differs from sorted order: " + str(c), str(simp)))
            if str(simp) != str(c):
                st["order_changes_rendering"] += 1
    out["stats"] = dict(st)
    out["outcomes"] = sorted(out["outcomes"])
    return out


def union_jobs(U: cu.Universe, maxlen: int) -> list[dict]:
    idx = [U.index[l] for l in cu.UNION_CORE]
    jobs = []
    # one job per (length, first item): every multiset's permutations are spread over jobs, the sorted
    # order is recomputed locally when needed
    for n in range(1, maxlen + 1):
        for first in idx:
            seqs = [(first,) + rest for rest in itertools.product(idx, repeat=n - 1)]
            if n <= 2:
                jobs.append({"seqs": seqs})
            else:
                for k in range(0, len(seqs), 2000):
                    jobs.append({"seqs": seqs[k : k + 2000]})
    return jobs


# --------------------------------------------------------------------------- reporting helpers


def parts_index(U: cu.Universe) -> list[list[int]]:
    """For every universe entry: indices of its immediate component atoms (depth-1 constructions)."""
    txt = dict(cu.ATOMS)
    by_text = {}
    for name, text in cu.ATOMS:
        by_text[text or name] = name
    comps: dict[str, list[str]] = {}
    atom_names = [n for n, _ in cu.ATOMS]
    for _cn, tmpl in cu.UNARY:
        for a in atom_names:
            comps.setdefault(tmpl.format(x=txt[a] or a), []).append(a)
    for _cn, tmpl in cu.BINARY:
        for a in cu.CORE12:
            for b in cu.CORE12:
                comps[tmpl.format(x=txt[a], y=txt[b])] = [a, b]
    for name in atom_names:  # the atoms Type[B], Type[K] have the atoms B, K as components
        if name.startswith("Type[") and name[5:-1] in atom_names:
            comps.setdefault(name, []).append(name[5:-1])
    out = []
    for lab in U.labels:
        out.append([U.index[a] for a in comps.get(lab, []) if a in U.index])
    return out


def lifted_from(parts: list[list[int]], failing: set[tuple], key: tuple, symmetric: bool) -> tuple | None:
    """A failing tuple of types is a lifted manifestation if replacing some of its members by one of their
    immediate components (or leaving them) yields a DIFFERENT failing tuple; returns that tuple."""
    for cand in itertools.product(*[[x] + parts[x] for x in key]):
        if cand == key or len(set(cand)) == 1:
            continue
        if cand in failing or (symmetric and cand[::-1] in failing and cand[::-1] != key):
            return cand
    return None


def reduce_and_group(U: cu.Universe, fails: list[tuple]) -> tuple[list[Violation], dict]:
    """Bound-law failures -> lifted manifestations removed -> grouped by (law, shapes) -> violations."""
    parts = parts_index(U)
    failing_pairs = {frozenset((f[1], f[2])) for f in fails}
    groups: "OrderedDict[tuple, list[tuple]]" = OrderedDict()
    lifted: Counter = Counter()
    lifted_of: dict[frozenset, list[tuple]] = {}
    n_roots = 0
    for f in fails:  # already in canonical (row-major, simplest-first) order
        law, s, t, side, res = f
        root = None
        for a in [s] + parts[s]:
            for b in [t] + parts[t]:
                if (a, b) != (s, t) and (a, b) != (t, s) and a != b and frozenset((a, b)) in failing_pairs:
                    root = (a, b)
                    break
            if root:
                break
        if root is not None:
            lifted[law] += 1
            lifted_of.setdefault(frozenset(root), []).append(f)
            continue
        n_roots += 1
        groups.setdefault((law, cl.pair_shape(U.types[s], U.types[t])), []).append(f)
    viol = []
    for (law, shape), members in groups.items():
        _law, s, t, side, res = members[0]
        sig = f"{law}|{U.strs[s]}|{U.strs[t]}"
        what = (f"{law} fails for s = {U.labels[s]!r}, t = {U.labels[t]!r}: "
                f"{'join' if law.startswith('join') else 'meet'}(s, t) = {res} is not a "
                f"{'supertype' if law.startswith('join') else 'subtype'} of the {side} argument "
                f"[{len(members)} root pair/side failures of shape {shape}]")
        viol.append(Violation(sig, what, {
            "kind": "pair", "tier": U.tier, "law": law, "s": U.labels[s], "t": U.labels[t], "side": side,
            "result": res, "s_type": U.strs[s], "t_type": U.strs[t], "group_shape": shape,
            "group_size": len(members),
            "members": [{"s": U.labels[m[1]], "t": U.labels[m[2]], "side": m[3], "result": m[4]} for m in members[:MAX_MEMBERS]],
            "lifted_manifestations": sum(len(lifted_of.get(frozenset((m[1], m[2])), [])) for m in members),
            "lifted_examples": [
                {"law": x[0], "s": U.labels[x[1]], "t": U.labels[x[2]], "side": x[3], "result": x[4]}
                for m in members[:MAX_MEMBERS] for x in lifted_of.get(frozenset((m[1], m[2])), [])[:1]][:10],
        }))
    return viol, {"lifted_manifestations": dict(lifted), "root_failures": n_roots, "cause_groups": len(groups)}


def group_simple(U: cu.Universe, fails: list[tuple], law: str) -> list[Violation]:
    shapes = [cl.kind_of(t, 0) for t in U.types]
    groups: "OrderedDict[tuple, list[tuple]]" = OrderedDict()
    for f in fails:
        groups.setdefault((shapes[f[1]], shapes[f[2]], f[3]), []).append(f)
    out = []
    for (k1, k2, side), members in groups.items():
        _l, s, t, side, _r = members[0]
        out.append(Violation(
            f"{law}|{side + '|' if side else ''}{U.strs[s]}|{U.strs[t]}",
            f"{law}{'/' + side if side else ''} fails for s = {U.labels[s]!r}, t = {U.labels[t]!r} [{len(members)} pairs of shapes {k1} x {k2}]",
            {"kind": "pair", "tier": U.tier, "law": law, "s": U.labels[s], "t": U.labels[t], "side": side,
             "group_size": len(members),
             "members": [{"s": U.labels[m[1]], "t": U.labels[m[2]]} for m in members[:MAX_MEMBERS]]}))
    return out


def transitivity(U: cu.Universe, rows: dict[int, int], members_idx: list[int]) -> tuple[list[Violation], dict]:
    """All chains s <: t <: u among the Any-free members of one group (rows hold bits for the group only)."""
    AF = 0
    for i in members_idx:
        if U.any_free[i]:
            AF |= 1 << i
    shapes = [cl.kind_of(t, 0) for t in U.types]
    chains = 0
    bad_triples: list[tuple[int, int, int]] = []
    n_bad = 0
    for s in members_idx:
        if not U.any_free[s]:
            continue
        rs = rows[s]
        m = rs & AF
        t = 0
        while m:
            if m & 1:
                rt = rows[t] & AF
                chains += rt.bit_count()
                bad = rt & ~rs
                u = 0
                while bad:
                    if bad & 1:
                        n_bad += 1
                        if len(bad_triples) < 20000:
                            bad_triples.append((s, t, u))
                    bad >>= 1
                    u += 1
            m >>= 1
            t += 1
    # cause-level grouping: by the shapes of the upper link (t, u), fixed tuples of any length being one shape
    def coarse(k: str) -> str:
        return "TupleFixed" if k.startswith("Tuple") and k[5:].isdigit() else k

    parts = parts_index(U)
    failing = set(bad_triples)
    n_lifted = 0
    groups: "OrderedDict[tuple, list]" = OrderedDict()
    for s, t, u in bad_triples:
        if lifted_from(parts, failing, (s, t, u), False) is not None:
            n_lifted += 1
            continue
        groups.setdefault((coarse(shapes[t]), coarse(shapes[u])), []).append((s, t, u))
    viol = []
    for k, members in groups.items():
        s, t, u = members[0]
        viol.append(Violation(
            f"transitivity|{U.strs[s]}|{U.strs[t]}|{U.strs[u]}",
            f"transitivity fails on Any-free types: {U.labels[s]!r} <: {U.labels[t]!r} <: {U.labels[u]!r} but not "
            f"{U.labels[s]!r} <: {U.labels[u]!r} [{len(members)} triples whose upper link t <: u has shapes {' <: '.join(k)}]",
            {"kind": "triple", "tier": U.tier, "law": "transitivity", "s": U.labels[s], "t": U.labels[t],
             "u": U.labels[u], "group_size": len(members),
             "members": [[U.labels[a], U.labels[b], U.labels[c]] for a, b, c in members[:MAX_MEMBERS]]}))
    return viol, {"any_free_types": AF.bit_count(), "chains_checked": chains, "failing_triples": n_bad,
                  "lifted_triples": n_lifted, "cause_groups": len(groups)}


def mismatch_violations(U: cu.Universe, mism: list[tuple]) -> list[Violation]:
    shapes = [cl.kind_of(t, 0) for t in U.types]
    lifted_n: dict[tuple, int] = {}
    parts = parts_index(U)
    failing = {(m[2], m[3]) for m in mism}
    groups: "OrderedDict[tuple, list]" = OrderedDict()
    for m in mism:
        mode, op, s, t = m[0], m[1], m[2], m[3]
        root = lifted_from(parts, failing, (s, t), True)
        if root is not None:
            # depth-1 construction over a pair whose own answer is cache dependent: same cause
            k = tuple(sorted((shapes[root[0]], shapes[root[1]])))
            if k in groups or (root[0], root[1]) in failing or (root[1], root[0]) in failing:
                lifted_n[k] = lifted_n.get(k, 0) + 1
                continue
        groups.setdefault(tuple(sorted((shapes[s], shapes[t]))), []).append(m)
    out = []
    for (k1, k2), members in groups.items():
        # representative: simplest op first (sub < proper < same < join < meet), then simplest pair, sweeps before (iv)
        m = min(members, key=lambda x: (cl.OPS.index(x[1]), x[2], x[3], x[6] is not None, x[0], str(x[6])))
        op = m[1]
        mode, _op, s, t, ref, got = m[:6]
        prior = m[6]
        group = m[7]
        modes = sorted({x[0] for x in members})
        what = (f"{op}({U.labels[s]!r}, {U.labels[t]!r}) = {ref!r} right after reset_all_subtype_caches() but {got!r} "
                f"in mode {mode}" + (f" after the single query {prior[0]}({U.labels[prior[1]]!r}, {U.labels[prior[2]]!r})" if prior else "")
                + f" [{len(members)} cache-dependent answers for pairs of shapes {k1} x {k2}, ops {sorted({x[1] for x in members})}, modes {modes}; "
                f"{lifted_n.get((k1, k2), 0)} more in depth-1 constructions over such pairs]")
        out.append(Violation(
            f"cache_dependence|{op}|{U.strs[s]}|{U.strs[t]}", what,
            {"kind": "cache", "tier": U.tier, "op": op, "s": U.labels[s], "t": U.labels[t], "mode": mode,
             "fresh_answer": ref, "cached_answer": got, "group_size": len(members),
             "prior": [prior[0], U.labels[prior[1]], U.labels[prior[2]]] if prior else None,
             "group": group, "block_rows": [U.labels[i] for i in block_of(s, group)] if not prior else None}))
    return out


def blocks_of(U: cu.Universe, group: str) -> list[dict]:
    g = U.groups[group]
    return [{"rows": g[i : i + ROWS_PER_BLOCK], "group": group} for i in range(0, len(g), ROWS_PER_BLOCK)]


def block_of(s: int, group: str) -> list[int]:
    assert _U is not None
    for b in blocks_of(_U, group):
        if s in b["rows"]:
            return b["rows"]
    raise KeyError(s)


# --------------------------------------------------------------------------- run


def run(ctx: Ctx) -> Result:
    t0 = time.time()
    U = universe(ctx.tier)
    N = len(U)
    log(f"C08 universe: {N} types ({len(U.dropped)} declarations rejected by mypy), built in {time.time() - t0:.1f}s")
    herr: list[str] = []
    violations: list[Violation] = []

    # ---- all ordered pairs within each group
    blocks = [b for g in U.groups for b in blocks_of(U, g)]
    order = seeded_order(list(range(len(blocks))), ctx.seed)
    results: dict[int, dict] = {}
    for i, job, st, val in pmap(eval_block, [blocks[k] for k in order], fresh=True, timeout=3600):
        if st != "ok":
            herr.append(f"block {job['group']}:{job['rows'][0]}..{job['rows'][-1]} failed: {val}")
            continue
        results[order[i]] = val
    if len(results) != len(blocks):
        raise RuntimeError(f"{len(blocks) - len(results)} of {len(blocks)} blocks did not complete: {herr[:2]}")
    rows: dict[str, dict[int, int]] = {g: {} for g in U.groups}
    prows: dict[str, dict[int, int]] = {g: {} for g in U.groups}
    fails: list[tuple] = []
    seen_fail: set[tuple] = set()
    mism: list[tuple] = []
    stats: Counter = Counter()
    pairs_by_group: Counter = Counter()
    join_asym: list = []
    njoin = nmeet = 0
    for k in range(len(blocks)):
        v = results[k]
        g = blocks[k]["group"]
        rows[g].update(v["rows"])
        prows[g].update(v["prows"])
        for f in v["fails"]:
            if f not in seen_fail:  # related types belong to both groups: their mutual pairs are evaluated twice
                seen_fail.add(f)
                fails.append(f)
        mism.extend(v["mismatch"])
        pairs_by_group[g] += v["stats"].get("pairs", 0)
        for key, n in v["stats"].items():
            if key.startswith("cache_"):
                stats[key] = max(stats[key], n)
            else:
                stats[key] += n
        for e in v["exc"]:
            herr.append(f"exception in {e[0]}({U.labels[e[1]]!r}, {U.labels[e[2]]!r}): {e[3]}")
        join_asym.extend(v["join_asym"])
        njoin = max(njoin, v["join_results"])
        nmeet = max(nmeet, v["meet_results"])
    t_pairs = time.time() - t0

    bound = [f for f in fails if f[0] in ("join_upper_bound", "meet_lower_bound")]
    bv, bstats = reduce_and_group(U, bound)
    violations.extend(bv)
    for law in ("reflexivity", "proper_implies_subtype", "same_implies_subtype"):
        violations.extend(group_simple(U, [f for f in fails if f[0] == law], law))
    tstats: dict[str, Any] = {"chains_checked": 0, "failing_triples": 0, "per_group": {}}
    seen_tr: set[str] = set()
    for g in U.groups:
        tv, ts = transitivity(U, rows[g], U.groups[g])
        tstats["per_group"][g] = ts
        tstats["chains_checked"] += ts["chains_checked"]
        tstats["failing_triples"] += ts["failing_triples"]
        for v in tv:
            if v.signature not in seen_tr:
                seen_tr.add(v.signature)
                violations.append(v)

    # ---- cache mode (iv): T over a 23-type core, Q over a 10-type core
    cache_iv = {"pairs": 0, "q1": 0, "q2": 0, "q1_leaving_cache_entries": 0, "pairs_skipped_q1_left_no_cache_entry": 0}
    if True:
        q1, q2 = cache_queries(U)
        cache_iv["q1"], cache_iv["q2"] = len(q1), len(q2)
        per = max(1, len(q1) // 128)
        cjobs = [{"q1": q1[k : k + per]} for k in range(0, len(q1), per)]
        for _i, job, st, val in pmap(eval_cache_pairs, cjobs, fresh=True, timeout=3600):
            if st != "ok":
                herr.append(f"cache-pair job failed: {val}")
                continue
            cache_iv["pairs"] += val["pairs"]
            cache_iv["q1_leaving_cache_entries"] += val["q1_leaving_cache_entries"]
            cache_iv["pairs_skipped_q1_left_no_cache_entry"] += val["pairs_skipped_q1_left_no_cache_entry"]
            mism.extend(val["mismatch"])

    # ---- union simplification
    maxlen = 3 if ctx.quick else 4
    ujobs = union_jobs(U, maxlen)
    ustats: Counter = Counter()
    ufails: list[tuple] = []
    uout: set[str] = set()
    done = 0
    for _i, job, st, val in pmap(eval_unions, ujobs, fresh=True, timeout=3600):
        if st != "ok":
            herr.append(f"union job failed: {val}")
            continue
        done += 1
        for key, n in val["stats"].items():
            ustats[key] += n
        ufails.extend(val["fails"])
        mism_u = val["mismatch"]
        for m in mism_u:
            violations.append(Violation(
                "cache_dependence|make_simplified_union|" + "|".join(U.strs[i] for i in m[2]),
                f"make_simplified_union({[U.labels[i] for i in m[2]]}) = {m[3]} after a cache reset but {m[4]} without",
                {"kind": "union_cache", "tier": U.tier, "items": [U.labels[i] for i in m[2]]}))
        uout.update(val["outcomes"])
    ushapes = [cl.kind_of(t, 0) for t in U.types]
    ugroups: "OrderedDict[tuple, list]" = OrderedDict()
    for f in ufails:
        ugroups.setdefault((f[0], tuple(sorted(ushapes[i] for i in f[1]))), []).append(f)
    for (law, ks), members in ugroups.items():
        f = members[0]
        violations.append(Violation(
            f"{law}|" + "|".join(U.strs[i] for i in f[1]),
            f"{law}: items {[U.labels[i] for i in f[1]]} -> make_simplified_union = {f[3]}: {f[2]} [{len(members)} sequences of shapes {list(ks)}]",
            {"kind": "union", "tier": U.tier, "law": law, "items": [U.labels[i] for i in f[1]], "group_size": len(members),
             "members": [[U.labels[i] for i in m[1]] for m in members[:MAX_MEMBERS]]}))

    violations.extend(mismatch_violations(U, mism))

    # ---- vacuity gate
    vac = []
    if stats["sub_true_offdiag"] < N:
        vac.append("too few s <: t off the diagonal")
    if stats["proper_true_offdiag"] < N:
        vac.append("too few proper subtypes")
    if stats["join_new_type"] == 0 or stats["meet_new_type"] == 0:
        vac.append("join/meet never produced a type different from its arguments")
    if stats["cache_pos_entries_after_forward"] == 0 or stats["cache_neg_entries_after_forward"] == 0:
        vac.append("sweeps never populated the subtype caches")
    if tstats["chains_checked"] < N or any(ts["chains_checked"] == 0 for ts in tstats["per_group"].values()):
        vac.append("no transitivity chains")
    if ustats["simplified_something"] == 0 or done != len(ujobs):
        vac.append("union simplification never removed an item / union jobs incomplete")
    if cache_iv["q1_leaving_cache_entries"] == 0:
        vac.append("mode (iv): no prior query left a cache entry")
    if vac:
        raise RuntimeError("vacuous exploration: " + "; ".join(vac))

    af = [i for i in range(N) if not U.any_free[i]]
    samples = [
        {"pair": [U.labels[1], U.labels[3]], "types": [U.strs[1], U.strs[3]], "sub": bool(rows["main"][1] >> 3 & 1),
         "proper": bool(prows["main"][1] >> 3 & 1)},
        {"join_order_sensitive_example": [
            {"s": U.labels[a], "t": U.labels[b], "join(s,t)": x, "join(t,s)": y} for a, b, x, y in join_asym[:2]]},
        {"universe_tail": U.labels[-3:], "rendered": U.strs[-3:]},
        {"union_outcomes": sorted(uout)[:4]},
    ]
    cov = {
        "evaluations": stats["queries_compared"] + cache_iv["pairs"] + ustats["sequences"] + tstats["chains_checked"],
        "distinct_nontrivial": stats["nontrivial_pairs"],
        "rule": "an ordered pair (s, t), s is not t, is non-trivial iff s <: t holds, or join(s, t) is not `object`, or "
                "meet(s, t) is not Never (the lattice operation did something other than the trivial fallback)",
        "exhaustive": not herr or all("exception in" in h for h in herr),
        "universe_size": N, "groups": {g: len(v) for g, v in U.groups.items()}, "ordered_pairs_by_group": dict(pairs_by_group),
        "atoms": len(cu.ATOMS), "declarations_rejected_by_mypy": [d[0] for d in U.dropped],
        "ordered_pairs": stats["pairs"], "queries_compared_across_cache_modes": stats["queries_compared"],
        "subtype_true_offdiag": stats["sub_true_offdiag"], "proper_true_offdiag": stats["proper_true_offdiag"],
        "distinct_join_results_per_block_max": njoin, "distinct_meet_results_per_block_max": nmeet,
        "join_produced_new_type": stats["join_new_type"], "meet_produced_new_type": stats["meet_new_type"],
        "join_order_sensitive_pairs_statistic_only": stats["join_order_sensitive"],
        "bound_law_side_failures": len(bound), **bstats,
        "transitivity": tstats, "any_containing_types_excluded_from_transitivity": [U.labels[i] for i in af][:20],
        "cache_entries_after_forward_sweep_max": [stats["cache_pos_entries_after_forward"], stats["cache_neg_entries_after_forward"]],
        "cache_mode_iv": cache_iv, "cache_mismatches": len(mism),
        "union": {"core": len(cu.UNION_CORE), "max_len": maxlen, **dict(ustats), "distinct_outcomes": len(uout),
                  "failing_sequences": len(ufails)},
        "perturbing_query_kinds": cl.PERTURB,
        "time_pairs_s": round(t_pairs, 1), "samples": samples,
        "bounds": f"depth <= 1; unary constructors over {'all atoms' if ctx.thorough else '20 atoms'}, binary over "
                  f"{'12' if ctx.thorough else '8'} atoms; unions of <= {maxlen} items from 20 types; "
                  f"group 'tuples': fixed tuples of length <= 3 and tuple[P.., *tuple[V, ...], S..] with prefix/suffix length 0..2 "
                  f"over {cu.TUP_PS[ctx.tier]}, V over {cu.TUP_V[ctx.tier]}, plus {len(cu.TUP_RELATED)} related types; laws over all "
                  f"pairs/chains within each group",
    }
    return Result(PROPERTY, LEVEL, cov, violations, assumptions=[
        "types come from one cold real build (bundled typeshed, default options, python 3.12) of the generated universe module",
        "nesting depth > 1 is not covered; 'randomly deeper' is not done (sampling)",
        "join(s,t) equivalent to join(t,s) is NOT demanded (not in the statement); counted as a statistic",
        "lifted manifestations of a failing component pair are counted under the root pair, root pairs are grouped by top-level shapes",
    ], harness_errors=herr)


# --------------------------------------------------------------------------- replay


def _replay_child(d: dict) -> list[tuple[str, str]]:
    from mypy.subtypes import is_subtype
    from mypy.typeops import make_simplified_union
    from mypy.types import UnionType

    U = _U
    assert U is not None
    fns = cl._fns()
    out: list[tuple[str, str]] = []
    kind = d.get("kind")
    if kind == "pair":
        S, X = U.get(d["s"]), U.get(d["t"])
        law = d["law"]
        print(f"s = {S}\nt = {X}")
        if law == "join_upper_bound":
            j = fns["join"](S, X)
            print(f"join(s, t) = {j}; s <: join: {fns['sub'](S, j)}; t <: join: {fns['sub'](X, j)}")
            if not (fns["sub"](S, j) and fns["sub"](X, j)):
                out.append((f"{law}|{S}|{X}", f"join = {j}"))
        elif law == "meet_lower_bound":
            m = fns["meet"](S, X)
            print(f"meet(s, t) = {m}; meet <: s: {fns['sub'](m, S)}; meet <: t: {fns['sub'](m, X)}")
            if not (fns["sub"](m, S) and fns["sub"](m, X)):
                out.append((f"{law}|{S}|{X}", f"meet = {m}"))
        elif law == "proper_implies_subtype":
            if fns["proper"](S, X) and not fns["sub"](S, X):
                out.append((f"{law}|{S}|{X}", "proper but not subtype"))
        elif law == "same_implies_subtype":
            if fns["same"](S, X) and not (fns["sub"](S, X) and fns["proper"](S, X)):
                out.append((f"{law}|{S}|{X}", "same but not subtype"))
        elif law == "reflexivity":
            for op in ("sub", "proper", "same"):
                if not fns[op](S, S):
                    out.append((f"{law}|{op}|{S}|{S}", f"{op}(t, t) is False"))
    elif kind == "triple":
        S, X, Y = U.get(d["s"]), U.get(d["t"]), U.get(d["u"])
        a, b, c = fns["sub"](S, X), fns["sub"](X, Y), fns["sub"](S, Y)
        print(f"s <: t {a}; t <: u {b}; s <: u {c}")
        if a and b and not c:
            out.append((f"transitivity|{S}|{X}|{Y}", "s <: t <: u but not s <: u"))
    elif kind == "union":
        items = [U.get(l) for l in d["items"]]
        simp = make_simplified_union(list(items))
        uns = UnionType.make_union(list(items))
        canon = make_simplified_union([U.types[i] for i in sorted(U.index[l] for l in d["items"])])
        ok1 = is_subtype(simp, uns) and is_subtype(uns, simp)
        ok2 = is_subtype(simp, canon) and is_subtype(canon, simp)
        print(f"simplified = {simp}; unsimplified = {uns}; sorted-order simplified = {canon}; equivalent: {ok1}, order-independent: {ok2}")
        if d["law"] == "union_simplification" and not ok1:
            out.append((d["law"] + "|" + "|".join(str(x) for x in items), str(simp)))
        if d["law"] == "union_order_independence" and not ok2:
            out.append((d["law"] + "|" + "|".join(str(x) for x in items), str(simp)))
    elif kind == "cache":
        S, X = U.get(d["s"]), U.get(d["t"])
        op = d["op"]
        cl.reset_caches()
        fresh = cl.answer(fns, op, S, X)
        if d.get("prior"):
            p = d["prior"]
            cl.reset_caches()
            fns[p[0]](U.get(p[1]), U.get(p[2]))
            got = cl.answer(fns, op, S, X)
            print(f"fresh = {fresh!r}; after {p} = {got!r}")
            if got != fresh:
                out.append((f"cache_dependence|{op}|{S}|{X}", f"{fresh!r} vs {got!r}"))
        else:
            rows = [U.index[l] for l in d["block_rows"]]
            r = eval_block({"rows": rows, "group": d.get("group", "main")})
            for m in r["mismatch"]:
                if m[1] == op and m[2] == U.index[d["s"]] and m[3] == U.index[d["t"]]:
                    print(f"mode {m[0]}: fresh = {m[4]!r}, in sweep = {m[5]!r}")
                    out.append((f"cache_dependence|{op}|{S}|{X}", f"{m[4]!r} vs {m[5]!r} ({m[0]})"))
                    break
    elif kind == "union_cache":
        items = [U.get(l) for l in d["items"]]
        cl.reset_caches()
        a = str(make_simplified_union(list(items)))
        b = str(make_simplified_union(list(items)))
        if a != b:
            out.append(("cache_dependence|make_simplified_union|" + "|".join(str(x) for x in items), f"{a} vs {b}"))
    return out


def replay(ctx: Ctx, rec: dict) -> Result:
    d = rec["detail"]
    universe(d.get("tier", ctx.tier))
    try:
        found = run_isolated(_replay_child, d, timeout=1200)
    except ExecError as e:
        return Result(PROPERTY, LEVEL, {}, [], harness_errors=[str(e)])
    return Result(PROPERTY, LEVEL, {}, [Violation(sig, what, d) for sig, what in found])
