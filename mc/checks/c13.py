"""C13 — error suppression is exact and the exit status tells the truth (S3 metamorphic; exploration).

Input space: every single-step program of the repository's check-*.test corpus (Q: a VERIF_SEED-selected
slice of files, T: all), run exactly as mypy/test/testcheck.py runs it (fast lane) but with error codes shown.
For every program P:

  * ignore family: every subset of P's error lines (all subsets when <= 5 lines, else all subsets of size
    <= 2 plus the full set) x kind in {bare, exact, super, wrong, two} x unused-ignore reporting in {off, on};
    the perturbed program differs from P only by `  # type: ignore[...]` comments appended to those lines
    (lines where that would change anything but add one COMMENT token are not annotated, and counted);
  * disable family: every error code c reported for P x {--disable-error-code c, per-module
    disable_error_code via a config section for __main__, disable + --enable-error-code c, disabling the
    super-code of c};
  * exit status: mypy.main.main (in-process CLI lane) on the baseline, on the full-set perturbation of every
    kind (unused-ignore reporting on), and on every `disable` / `per-module` variant: 0 iff no error line,
    2 iff build raised CompileError (blocker), else 1.  Runs where main() refuses the command line before
    building, or where mypy crashes (INTERNAL ERROR), are counted and not judged.

Oracle: mc.c13_model (the documented rules applied to the baseline run's ErrorInfo objects).
"""

from __future__ import annotations

import os
import shutil
from collections import Counter
from typing import Any

from mc import c13_lane as lane
from mc import c13_model as model
from mc import corpus
from mc.common import Ctx, Result, Violation, log, same_diagnostics, scratch, seeded_order
from mc.kernel import pmap, run_isolated, subsets

PROPERTY = "C13"
LEVEL = "exploration"

KINDS = ("bare", "exact", "super", "wrong", "two")
WRONG_CANDIDATES = ("truthy-iterable", "str-bytes-safe", "unused-awaitable", "typeddict-unknown-key", "exit-return")
MAIN = "main"
# Codes the checker reports inside ErrorWatcher-guarded probes (overload variants, reflected operators, union math,
# member access on unions, missing await, ...; `self.msg.filter_errors(` in checkexpr.py / checker.py / checkmember.py).
# A tentative error is never printed, so these codes are disabled whether or not the program's output shows them:
# the prediction is unchanged (exactly the infos carrying the code go; none present => output identical).
PROBE_CODES = ("arg-type", "call-arg", "call-overload", "operator", "attr-defined", "union-attr", "index", "misc",
               "return-value", "assignment", "type-var", "valid-type", "name-defined", "override")
Q_FILES = 12
Q_ANCHORS = ("check-errorcodes.test", "check-ignore.test", "check-overloading.test")  # always in the quick slice: densest ignore / unused-ignore / watcher-probe inputs
Q_PER_FILE = 50
Q_MAX_LINES = 12  # quick leaves programs with more expected error lines (O(n^2) subsets) to the thorough tier
MAX_FULL_SUBSETS = 5


# --------------------------------------------------------------------------- baseline


def _code_names(cs: Any) -> set[str]:
    return {c.code for c in cs}


def take_baseline(prog: dict, extra: list[str], rerun: bool = True) -> dict[str, Any] | str:
    """Run P (+extra flags) twice; returns the captured state, or a reason string why P is unusable."""
    try:
        b = lane.build_once(prog, prog["main"], extra)
    except lane.OptionsRejected:
        return "flags rejected by process_options"
    except lane.MypyCrash:
        return "baseline crashes (INTERNAL ERROR; fixture stubs) - not judged"
    E = b["errors"]
    if E is None:
        return "no BuildManager captured"
    infos = {f: list(v) for f, v in E.error_info_map.items()}
    if any(i.hidden for v in infos.values() for i in v):
        return "hidden errors (many-errors limiter)"
    base = {
        "messages": b["messages"], "blocker": b["blocker"], "options": b["options"], "infos": infos,
        "ignore_prefix": E.ignore_prefix,
        "ignored_lines": dict(E.ignored_lines.get(MAIN, {})),
        "all_ignored_lines": {f: dict(v) for f, v in E.ignored_lines.items()},
        "skipped_lines": set(E.skipped_lines.get(MAIN, set())),
        "swallowed": b["swallowed"], "once_dropped": b["once_dropped"],
        "file_codes": {f: (_code_names(o.disabled_error_codes), _code_names(o.enabled_error_codes))
                       for f, o in b["file_options"].items()},
        "main_options": b["file_options"].get(MAIN),
    }
    base["file_codes"][""] = (_code_names(b["options"].disabled_error_codes), _code_names(b["options"].enabled_error_codes))
    # harness self-checks: (1) the rendering pipeline reproduces the run's own output from its own infos,
    # (2) the run is reproducible inside this process (perturbed runs share the process)
    r = model.render(b["options"], E.ignore_prefix, infos, {})
    if not same_diagnostics(r, b["messages"])[0]:
        return "render self-check failed"
    if rerun:
        b2 = lane.build_once(prog, prog["main"], extra)
        if b2["messages"] != b["messages"] or b2["blocker"] != b["blocker"]:
            return "baseline not reproducible in-process"
    return base


def unused_reporting_on(o: Any) -> bool:
    dis, en = _code_names(o.disabled_error_codes), _code_names(o.enabled_error_codes)
    return (bool(o.warn_unused_ignores) or "unused-ignore" in en) and "unused-ignore" not in dis


# --------------------------------------------------------------------------- ignore family


def candidate_lines(base: dict) -> list[int]:
    out: set[int] = set()
    for i in base["infos"].get(MAIN, []):
        if i.severity != "error" or i.code is None and not i.blocker:
            continue
        if i.code is not None and i.code.code in ("unused-ignore", "ignore-without-code"):
            continue
        sp = model.span_of(i)
        out.add(i.line)
        if sp:
            out.add(min(sp))
            out.add(max(sp))
    return sorted(ln for ln in out if ln >= 1)


def line_codes(base: dict, ln: int) -> list[Any]:
    """Codes of the non-blocker errors an ignore on `ln` may touch, own-line errors first."""
    own, other = [], []
    for i in base["infos"].get(MAIN, []):
        if i.blocker or i.code is None or i.severity != "error":
            continue
        if i.line == ln:
            own.append(i.code)
        elif ln in model.span_of(i):
            other.append(i.code)
    seen, out = set(), []
    for c in own + other:
        if c.code not in seen:
            seen.add(c.code)
            out.append(c)
    return out


def pick_wrong(bases: list[dict]) -> str:
    from mypy.errorcodes import error_codes

    present: set[str] = set()
    for b in bases:
        for lst in b["infos"].values():
            present |= {i.code.code for i in lst if i.code is not None}
        present |= {i.code.code for _f, i in b["swallowed"] if i.code is not None}
    rel = set(present)
    for p in present:
        c = error_codes.get(p)
        if c is not None and c.sub_code_of is not None:
            rel.add(c.sub_code_of.code)
    for cand in WRONG_CANDIDATES:
        c = error_codes[cand]
        if cand not in rel and (c.sub_code_of is None or c.sub_code_of.code not in rel):
            return cand
    return "xx-never-a-code"


def comments_for(base: dict, lines: tuple[int, ...], kind: str, wrong: str) -> dict[int, list[str]] | None:
    added: dict[int, list[str]] = {}
    any_super = False
    for ln in lines:
        cs = line_codes(base, ln)
        if kind == "bare":
            added[ln] = []
        elif kind == "wrong":
            added[ln] = [wrong]
        elif not cs:
            return None
        elif kind == "exact":
            added[ln] = [cs[0].code]
        elif kind == "super":
            if cs[0].sub_code_of is not None:
                any_super = True
                added[ln] = [cs[0].sub_code_of.code]
            else:
                added[ln] = [cs[0].code]
        elif kind == "two":
            added[ln] = [cs[0].code, cs[1].code if len(cs) > 1 else wrong]
    if kind == "super" and not any_super:
        return None
    return added


def comment_text(listed: list[str]) -> str:
    return "# type: ignore" + (f"[{', '.join(listed)}]" if listed else "")


def diff_groups(prefix: str, relation: Any, actual: list[str], expected: list[str], blocker_changed: bool) -> list[tuple[str, list[str], list[str]]]:
    """Cause-level signatures of a mismatch: the differing lines are grouped by source location and code;
    signature = <family>:<relation of the perturbation to that code>|<added/removed/changed>|<severity>[<code>]
    (code-less notes carry their abstracted text).  Returns [(signature, extra lines, missing lines)]."""
    import re

    ca, ce = Counter(actual), Counter(expected)
    extra = sorted((ca - ce).elements())
    missing = sorted((ce - ca).elements())
    groups: dict[tuple, dict[str, list[str]]] = {}
    for sign, lines in (("+", extra), ("-", missing)):
        for x in lines:
            m = model.LOC_RE.match(x)
            mc = re.search(r"  \[([a-z0-9-]+)\]$", x)
            code = mc.group(1) if mc else ""
            if m:
                key = (m.group("file"), int(m.group("line")), m.group("sev"), code if code else model.shape(x)[:60])
            else:
                key = ("", 0, "?", "unlocated")
            groups.setdefault(key, {"+": [], "-": []})[sign].append(x)
    out: dict[str, tuple[list[str], list[str]]] = {}
    for (f, ln, sev, code), g in sorted(groups.items()):
        change = "changed" if g["+"] and g["-"] else ("added" if g["+"] else "removed")
        what = f"{sev}[{code}]" if not code.startswith(sev) else code
        sig = f"{prefix}:{relation(f, ln, code)}|{change}|{what}"
        e, mi = out.setdefault(sig, ([], []))
        e += g["+"]
        mi += g["-"]
    if blocker_changed:
        out.setdefault(f"{prefix}|blocker flag changed", ([], []))
    if not out:
        out[f"{prefix}|order of diagnostics changed"] = ([], [])
    return [(sig, e, mi) for sig, (e, mi) in out.items()]


def check_ignore_run(prog: dict, base: dict, added: dict[int, list[str]], kind: str, warn: str, extra: list[str],
                     stats: Counter) -> list[dict]:
    text = model.annotate(prog["main"], {ln: comment_text(c) for ln, c in added.items()})
    try:
        run = lane.build_once(prog, text, extra)
    except lane.MypyCrash:
        stats["perturbed_runs_crashed (INTERNAL ERROR; not judged)"] += 1
        return []
    o_main = run["file_options"].get(MAIN) or run["options"]
    pr = model.predict_ignores(base, MAIN, added, unused_reporting_on(o_main))
    if pr.skip:
        stats["skipped:" + pr.skip] += 1
        return []
    volatile = set(pr.volatile)
    if base["blocker"]:
        volatile |= set(added)  # analysis stopped early: whether unused-ignore was reached is not promised
    extra_infos = {MAIN: [model.unused_info(ln, msg) for ln, msg in sorted(pr.unused.items()) if ln not in volatile]}
    expected = model.render(base["options"], base["ignore_prefix"], pr.keep, extra_infos)
    coded = {ln for ln, c in added.items() if c}
    actual, notes = model.split_not_covered(run["messages"], MAIN, coded)
    actual = [model.norm_narrower(x) for x in model.drop_unused_at(actual, MAIN, volatile)]
    expected = [model.norm_narrower(x) for x in model.drop_unused_at(expected, MAIN, volatile)]
    actual = model.star_syntax_columns(actual, MAIN, set(added))
    expected = model.star_syntax_columns(expected, MAIN, set(added))
    eq, order_only = same_diagnostics(actual, expected)
    if order_only:
        stats["order_only_differences"] += 1
    stats["evaluations"] += 1
    stats[f"runs:{kind}"] += 1
    if pr.removed:
        stats["runs_removing_something"] += 1
        stats["infos_removed"] += len(pr.removed)
        if any(i.severity == "note" for i in pr.removed):
            stats["runs_removing_notes"] += 1
        if any(len(model.span_of(i)) > 1 for i in pr.removed):
            stats["runs_removing_multiline_span"] += 1
    if getattr(pr, "resurfaced", None):
        stats["runs_where_a_once_only_note_moves_to_the_next_occurrence"] += 1
    if pr.unused:
        stats["runs_expecting_unused_ignore"] += 1
    if any("narrower" in m for m in pr.unused.values()):
        stats["runs_expecting_narrower_hint"] += 1
    if volatile:
        stats["runs_with_volatile_lines"] += 1
    if len(expected) != len(base["messages"]) and expected:
        stats["runs_partial_change"] += 1
    problems: list[dict] = []
    if not eq or run["blocker"] != base["blocker"]:
        from mypy.errorcodes import error_codes

        def relation(f: str, ln: int, code: str) -> str:
            if f != MAIN or ln not in added:
                return "other-line"
            if not added[ln]:
                return "bare"
            c = error_codes.get(code)
            return "covering" if c is not None and model.covers(added[ln], c) is not None else "non-covering"

        for sig, ex, mi in diff_groups("ignore", relation, actual, expected, run["blocker"] != base["blocker"]):
            problems.append({"signature": sig, "extra": ex[:8], "missing": mi[:8]})
    else:
        # the "not covered" notes must tell the truth (they were left out of the byte comparison)
        surviving = [i for i in pr.keep.get(MAIN, [])]
        for ln, code, listed in notes:
            stats["not_covered_notes_seen"] += 1
            ok = ln in added and (not listed or [x.strip() for x in listed.split(",")] == added[ln]) and any(
                i.line == ln and i.code is not None and i.code.code == code for i in surviving)
            if not ok:
                problems.append({"signature": f"ignore:non-covering|added|false 'not covered' note for [{code}]",
                                 "extra": [f"{ln}:{code}:{listed}"], "missing": []})
        have = {(ln, code) for ln, code, _l in notes}
        for i in surviving:
            # not promised by the property (and undocumented): counted, not judged
            if i.severity == "error" and i.line in coded and i.code is not None and not i.blocker \
                    and i.code.code not in ("unused-ignore", "ignore-without-code") and (i.line, i.code.code) not in have:
                stats["surviving_coded_errors_without_not_covered_note (informational)"] += 1
    for problem in problems:
        problem.update({"family": "ignore", "program": prog["id"], "kind": kind, "warn": warn,
                        "lines": sorted(added), "comments": {str(k): v for k, v in added.items()},
                        "main_text": text, "actual": run["messages"][:30], "expected": expected[:30]})
    return problems


# --------------------------------------------------------------------------- disable family


def disable_variants(base: dict, prog: dict) -> list[tuple[str, str, list[str], dict | None]]:
    """(variant, code, extra flags, config file text)"""
    from mypy.errorcodes import error_codes

    present: list[str] = []
    for lst in base["infos"].values():
        for i in lst:
            if i.code is not None and i.code.code not in present and i.code.code in error_codes:
                present.append(i.code.code)
    for _f, i in base["swallowed"]:
        if i.code is not None and i.code.code not in present and i.code.code in error_codes:
            present.append(i.code.code)
    out = []
    has_cfg = any(f.startswith("--config-file") for f in prog["flags"])
    for c in sorted(present):
        out.append(("disable", c, ["--disable-error-code", c], None))
        out.append(("disable+enable", c, ["--disable-error-code", c, "--enable-error-code", c], None))
        sup = error_codes[c].sub_code_of
        if sup is not None:
            out.append(("disable-super", c, ["--disable-error-code", sup.code], None))
        if not has_cfg:
            out.append(("per-module", c, ["--config-file", "c13.ini"], {"c13.ini": f"[mypy]\n[mypy-__main__]\ndisable_error_code = {c}\n"}))
    # probe codes that the output does not show: all of them at once for every program (global and per-module),
    # and one by one for programs that contain a watcher-guarded construct (cheap AST scan, see probe_scan)
    absent = [c for c in PROBE_CODES if c not in present]
    if absent:
        joined = ",".join(absent)
        out.append(("probe-all", joined, [x for c in absent for x in ("--disable-error-code", c)], None))
        if not has_cfg:
            out.append(("probe-all-per-module", joined, ["--config-file", "c13.ini"],
                        {"c13.ini": f"[mypy]\n[mypy-__main__]\ndisable_error_code = {', '.join(absent)}\n"}))
        if prog.get("probe_individual"):
            for c in absent:
                out.append(("probe", c, ["--disable-error-code", c], None))
    return out


def codes_after(base: dict, variant: str, c: str) -> dict[str, tuple[set[str], set[str]]]:
    """docs/source/error_codes.rst: enabling overrides disabling; a per-module section adjusts the global sets."""
    from mypy.errorcodes import error_codes

    out = {}
    cs = set(c.split(","))
    for f, (dis, en) in base["file_codes"].items():
        dis, en = set(dis), set(en)
        if variant in ("disable", "probe", "probe-all"):
            dis = (dis | cs) - en
        elif variant == "disable-super":
            s = error_codes[c].sub_code_of.code
            dis = (dis | {s}) - en
        elif variant == "disable+enable":
            en = en | cs
            dis = (dis | cs) - en
        elif variant in ("per-module", "probe-all-per-module"):
            if f == MAIN:
                dis = dis | cs
                en = en - cs
        out[f] = (dis, en)
    return out


def check_disable_run(prog: dict, base: dict, variant: str, c: str, extra: list[str], cfg: dict | None, stats: Counter) -> list[dict]:
    if cfg:
        for name, text in cfg.items():
            with open(name, "w") as f:
                f.write(text)
    try:
        run = lane.build_once(prog, prog["main"], extra)
    except lane.OptionsRejected:
        stats["skipped:disable variant rejected by option processing"] += 1
        return []
    except lane.MypyCrash:
        stats["perturbed_runs_crashed (INTERNAL ERROR; not judged)"] += 1
        return []
    o_main = run["file_options"].get(MAIN) or run["options"]
    iwc = any("ignore-without-code" in en for _d, en in base["file_codes"].values())
    pr = model.predict_disable(base, codes_after(base, variant, c), MAIN, unused_reporting_on(o_main) and not base["blocker"], iwc)
    if pr.skip:
        stats["skipped:" + pr.skip] += 1
        return []
    if pr.unused:
        stats["disable_runs_expecting_existing_ignore_to_become_unused"] += 1
    extra_infos = {MAIN: [model.unused_info(ln, msg) for ln, msg in sorted(pr.unused.items())]}
    expected = model.render(base["options"], base["ignore_prefix"], pr.keep, extra_infos)
    actual = list(run["messages"])
    for f, lines in getattr(pr, "volatile_by_file", {}).items():
        disp = os.path.normpath(f)
        if base["ignore_prefix"] and disp.startswith(base["ignore_prefix"]):
            disp = disp[len(base["ignore_prefix"]):]
        actual = model.drop_unused_at(actual, disp, lines)
        expected = model.drop_unused_at(expected, disp, lines)
        stats["runs_with_volatile_lines"] += 1
    eq, order_only = same_diagnostics(actual, expected)
    if order_only:
        stats["order_only_differences"] += 1
    stats["evaluations"] += 1
    stats[f"runs:{variant}"] += 1
    if variant.startswith("probe") and not pr.removed:
        stats["probe_runs_expected_identical_to_baseline"] += 1
    if pr.removed:
        stats["disable_runs_removing_something"] += 1
        if any(i.severity == "note" for i in pr.removed):
            stats["runs_removing_notes"] += 1
    if expected and len(expected) != len(base["messages"]):
        stats["runs_partial_change"] += 1
    if eq and run["blocker"] == base["blocker"]:
        return []
    from mypy.errorcodes import error_codes

    targets = {error_codes[c].sub_code_of.code} if variant == "disable-super" else set(c.split(","))

    def relation(f: str, ln: int, code: str) -> str:
        cc = error_codes.get(code)
        same = cc is not None and (cc.code in targets or (cc.sub_code_of is not None and cc.sub_code_of.code in targets))
        return "same-code" if same else "other-code"

    out = []
    for sig, ex, mi in diff_groups(f"disable/{variant}", relation, actual, expected, run["blocker"] != base["blocker"]):
        out.append({"signature": sig, "extra": ex[:8], "missing": mi[:8], "family": "disable", "program": prog["id"],
                    "variant": variant, "code": c, "extra_flags": extra, "main_text": prog["main"],
                    "actual": run["messages"][:30], "expected": expected[:30]})
    return out


# --------------------------------------------------------------------------- exit status


def check_status(prog: dict, text: str, extra: list[str], what: str, stats: Counter) -> dict | None:
    """Text output and `--output json`: the status must not depend on how the messages are rendered."""
    first = None
    for mode in ("text", "json"):
        try:
            r = lane.cli_status(prog, text, extra, json_mode=mode == "json")
        except Exception:  # noqa: BLE001
            stats["cli_harness_errors"] += 1
            continue
        if r["crashed"]:
            stats["cli_crashed_runs (not judged)"] += 1
            continue
        if r["usage_error"]:
            stats["cli_usage_errors (flags not accepted on the command line; not judged)"] += 1
            continue
        want = 2 if r["blocker"] else (1 if r["n_error_lines"] else 0)
        stats["exit_status_checks"] += 1
        stats[f"exit_status_checks:{mode}"] += 1
        stats[f"exit_status_expected_{want}"] += 1
        if r["lines"] and not r["n_error_lines"]:
            stats["exit_status_notes_only_runs"] += 1
        if r["status"] != want and first is None:
            tag = "exit-status" if mode == "text" else "exit-status/json"
            first = {"signature": f"{tag}|got {r['status']} want {want}|blocker={r['blocker']}|error_lines={'0' if not r['n_error_lines'] else '>0'}",
                     "family": "status", "program": prog["id"], "what": what, "args": r["args"], "main_text": text,
                     "status": r["status"], "want": want, "output": r["lines"][:20], "extra": [], "missing": []}
    return first


# --------------------------------------------------------------------------- one program / one batch


def subsets_of(lines: list[int]) -> list[tuple[int, ...]]:
    if len(lines) <= MAX_FULL_SUBSETS:
        return [s for s in subsets(lines, min_size=1)]
    return [s for s in subsets(lines, max_size=2, min_size=1)] + [tuple(lines)]


def explore_program(prog: dict, root: str, only: dict | None = None, part: Any = None) -> dict:
    """part: None = everything; ("ignore", kind, warn) = that slice of the ignore family only;
    "rest" = baseline bookkeeping + exit status of the baseline + disable family (heavy programs are split)."""
    stats: Counter = Counter()
    problems: list[dict] = []
    sample = None
    lane.materialize(prog, root)
    os.chdir(root)
    WARN = {"off": ["--no-warn-unused-ignores"], "on": ["--warn-unused-ignores"]}
    bases: dict[str, Any] = {}
    for key, extra in (("own", []), ("off", WARN["off"]), ("on", WARN["on"])):
        b = take_baseline(prog, extra, rerun=key == "own")
        if isinstance(b, str):
            stats["programs_skipped:" + b] += 1
            return {"stats": stats, "problems": problems, "sample": None, "nontrivial": False, "outcome": None}
        bases[key] = b
    own = bases["own"]
    first = part is None or part == "rest"  # per-program counters are taken once
    do_ignore = part is None or (isinstance(part, tuple) and part[0] == "ignore")
    do_rest = part is None or part == "rest"
    if first:
        stats["programs_explored"] += 1
        if own["blocker"]:
            stats["programs_with_blocker"] += 1

    def want(family: str, **kw: Any) -> bool:
        if only is None:
            return True
        return only.get("family") == family and all(only.get(k) == v for k, v in kw.items())

    # exit status of the unperturbed program
    if do_rest and want("status", what="baseline"):
        p = check_status(prog, prog["main"], [], "baseline", stats)
        if p:
            problems.append(p)

    # ----- ignore family
    cands = candidate_lines(bases["off"])
    safe, why = model.safe_lines(prog["main"], cands)
    safe -= own["skipped_lines"]
    if first:
        for ln, reason in why.items():
            stats["lines_not_annotated:" + reason] += 1
    lines = sorted(safe) if do_ignore else []
    wrong = pick_wrong(list(bases.values()))
    iwc = any("ignore-without-code" in en for _d, en in own["file_codes"].values())
    if lines:
        if part is None or part == ("ignore", KINDS[0], "off"):
            stats["programs_with_annotatable_error_lines"] += 1
            if len(lines) > MAX_FULL_SUBSETS:
                stats["programs_over_5_lines (size<=2 subsets + full set)"] += 1
        subs = subsets_of(lines)
        for kind in KINDS:
            if kind == "bare" and iwc:
                stats["kinds_skipped:bare ignore while ignore-without-code is enabled"] += 1
                continue
            for warn in ("off", "on"):
                if part is not None and part != ("ignore", kind, warn):
                    continue
                base = bases[warn]
                for sub in subs:
                    do_run = want("ignore", kind=kind, warn=warn, lines=list(sub))
                    do_status = sub == tuple(lines) and warn == "on" and want("status", what=f"ignore:{kind}:{warn}")
                    if not (do_run or do_status):
                        continue
                    added = comments_for(base, sub, kind, wrong)
                    if added is None:
                        stats[f"combos_not_applicable:{kind}"] += 1
                        continue
                    if do_run:
                        ps = check_ignore_run(prog, base, added, kind, warn, WARN[warn], stats)
                        problems += ps
                        if not ps and sample is None and kind == "exact":
                            sample = {"program": prog["id"], "kind": kind, "warn": warn, "lines": list(sub),
                                      "comments": {str(k): v for k, v in added.items()}, "baseline_messages": len(base["messages"])}
                    if do_status:
                        text = model.annotate(prog["main"], {ln: comment_text(c) for ln, c in added.items()})
                        p = check_status(prog, text, WARN[warn], f"ignore:{kind}:{warn}", stats)
                        if p:
                            problems.append(p)

    # ----- disable family
    uniform = len({(frozenset(d), frozenset(e)) for d, e in own["file_codes"].values()}) == 1
    if not do_rest:
        pass
    elif not uniform:
        stats["programs_disable_family_skipped:per-file error-code configuration"] += 1
    else:
        for variant, c, extra, cfg in disable_variants(own, prog):
            if want("disable", variant=variant, code=c):
                problems += check_disable_run(prog, own, variant, c, extra, cfg, stats)
            if variant in ("disable", "per-module") and want("status", what=f"{variant}:{c}"):
                if cfg:
                    for name, text in cfg.items():
                        with open(name, "w") as f:
                            f.write(text)
                p = check_status(prog, prog["main"], extra, f"{variant}:{c}", stats)
                if p:
                    problems.append(p)
    nontrivial = stats["runs_removing_something"] + stats["disable_runs_removing_something"] > 0
    return {"stats": stats, "problems": problems, "sample": sample, "nontrivial": nontrivial,
            "outcome": (len(own["messages"]), own["blocker"], len(safe)) if first else None}


def run_batch(work: list[tuple[dict, Any]]) -> dict:
    root = scratch("c13", f"w{os.getpid()}")
    stats: Counter = Counter()
    problems: list[dict] = []
    samples: list[dict] = []
    nontrivial: list[str] = []
    outcomes: set = set()
    herr: list[str] = []
    for prog, part in work:
        try:
            r = explore_program(prog, os.path.join(root, "p"), None, part)
        except Exception as e:  # noqa: BLE001 - a crash of mypy or of the harness on one program
            import traceback

            herr.append(f"{prog['id']} part={part}: {type(e).__name__}: {e} :: {traceback.format_exc()[-600:]}")
            stats["programs_crashed (not judged)"] += 1
            os.chdir("/")
            continue
        stats.update(r["stats"])
        per_sig: Counter = Counter()
        for p in r["problems"]:
            per_sig[p["signature"]] += 1
            if per_sig[p["signature"]] <= 2:
                problems.append(p)
            else:
                stats["violation_occurrences_not_listed"] += 1
        if r["sample"]:
            samples.append(r["sample"])
        if r["nontrivial"]:
            nontrivial.append(prog["id"])
        if r["outcome"]:
            outcomes.add(r["outcome"])
    os.chdir("/")
    shutil.rmtree(root, ignore_errors=True)
    for d in (os.path.dirname(root), os.path.dirname(os.path.dirname(root))):
        try:
            os.rmdir(d)  # only succeeds for a scratch root this worker created itself (no parent root) and left empty
        except OSError:
            pass
    return {"stats": dict(stats), "problems": problems, "samples": samples[:2], "nontrivial": nontrivial,
            "outcomes": sorted(outcomes), "herr": herr}


# --------------------------------------------------------------------------- corpus selection


_OP_DUNDERS = {f"__{p}{n}__" for p in ("", "r", "i") for n in (
    "add", "sub", "mul", "matmul", "truediv", "floordiv", "mod", "divmod", "pow", "lshift", "rshift", "and", "or", "xor")} | {
    "__lt__", "__le__", "__gt__", "__ge__", "__eq__", "__ne__", "__contains__", "__getitem__", "__setitem__", "__neg__",
    "__pos__", "__invert__", "__call__", "__iter__", "__next__", "__enter__", "__exit__", "__get__", "__set__"}


def probe_scan(prog: dict) -> bool:
    """Cheap AST scan (regex fallback for unparsable text): does the program contain a construct the checker
    resolves by probing under an ErrorWatcher - an @overload, an operator/protocol dunder defined on a class,
    an await / async construct, or a Union/Optional/`X | Y` annotation together with an attribute access?
    Only decides for which programs the absent probe codes are ALSO disabled one by one."""
    import ast
    import re

    for text in [prog["main"], *[t for n, t in prog["files"].items() if n.endswith((".py", ".pyi")) and n not in
                                  ("builtins.pyi", "typing.pyi", "_typeshed.pyi")]]:
        try:
            tree = ast.parse(text)
        except (SyntaxError, ValueError, RecursionError):
            if re.search(r"\boverload\b|\bawait\b|\basync\b|\bUnion\b|\bOptional\b|def __[a-z]+__", text):
                return True
            continue
        union = attr = False
        for n in ast.walk(tree):
            if isinstance(n, (ast.Await, ast.AsyncFunctionDef, ast.AsyncFor, ast.AsyncWith)):
                return True
            if isinstance(n, (ast.Name, ast.Attribute)) and (getattr(n, "id", None) or getattr(n, "attr", None)) == "overload":
                return True
            if isinstance(n, ast.FunctionDef) and n.name in _OP_DUNDERS:
                return True
            if isinstance(n, ast.Name) and n.id in ("Union", "Optional") or isinstance(n, ast.BinOp) and isinstance(n.op, ast.BitOr):
                union = True
            if isinstance(n, ast.Attribute):
                attr = True
        if union and attr:
            return True
    return False


# Generated anchor family (both tiers): 2-3 lines that each produce the SAME once-per-build message
# (`only_once=True` in mypy/build.py module_not_found: the "See https://...#missing-imports" note), so that every
# subset of ignored lines decides where the note must re-attach (first non-suppressed occurrence).
GENERATED = {
    "once-imports-2": "import nosuch_a\nimport nosuch_b",
    "once-imports-3": "import nosuch_a\nimport nosuch_b\nimport nosuch_c",
    "once-from-imports-3": "from nosuch_a import x\nimport nosuch_b.sub\nfrom nosuch_c.d import y",
    "once-imports-mixed-3": "import nosuch_a\nx: int = ''\nimport nosuch_b\nreveal_type(x)\nfrom nosuch_c import z",
}


def generated_programs() -> list[dict]:
    return [{"id": f"generated::{name}", "file": "generated", "name": name, "main": text, "files": {}, "flags": [],
             "est_lines": text.count("import"), "probe_individual": False} for name, text in sorted(GENERATED.items())]


def estimate_error_lines(c: corpus.Case) -> int:
    """Only used to balance the work queue (the corpus marks expected errors as `# E:` / in [out])."""
    import re

    lines = {k for k, ln in enumerate(c.main.split("\n"), 1) if " # E:" in ln}
    for o in c.expected_out:
        m = re.match(r"main:(\d+):.* error:", o)
        if m:
            lines.add(int(m.group(1)))
    return len(lines)


def work_items(progs: list[dict]) -> list[list[tuple[dict, Any]]]:
    """Queue of work items, most expensive first (longest-processing-time packing over the 16 workers):
    a program with more than 5 expected error lines is split into its 10 (kind, warn) slices + the rest."""

    def cost(n: int, probed: bool = False) -> int:  # ~ number of perturbed runs
        return 10 * ((2 ** n - 1) if n <= MAX_FULL_SUBSETS else (n + n * (n - 1) // 2 + 1)) + 10 + (12 if probed else 0)

    items: list[tuple[int, list[tuple[dict, Any]]]] = []
    light: list[dict] = []
    for p in progs:
        n = p["est_lines"]
        if n > MAX_FULL_SUBSETS:
            for kind in KINDS:
                for warn in ("off", "on"):
                    items.append((cost(n) // 10, [(p, ("ignore", kind, warn))]))
            items.append((35, [(p, "rest")]))
        else:
            light.append(p)
    cur: list[tuple[dict, Any]] = []
    acc = 0
    for p in sorted(light, key=lambda p: -p["est_lines"]):
        cur.append((p, None))
        acc += cost(p["est_lines"], p["probe_individual"])
        if acc >= 120 or len(cur) >= 8:
            items.append((acc, cur))
            cur, acc = [], 0
    if cur:
        items.append((acc, cur))
    items.sort(key=lambda t: -t[0])
    return [it for _c, it in items]


def select_programs(ctx: Ctx) -> tuple[list[dict], dict]:
    files = corpus.files_matching("check-*.test")
    info: dict[str, Any] = {"corpus_files_total": len(files)}
    if ctx.quick:
        anchors = [f for f in files if os.path.basename(f) in Q_ANCHORS]
        rest = [f for f in seeded_order(files, ctx.seed + 1) if f not in anchors]
        files = sorted(anchors + rest[: Q_FILES - len(anchors)])
    skipped: Counter = Counter()
    progs = []
    for f in files:
        n = 0
        for c in corpus.load_file(f):
            if c.multi_step or c.has_cmd:
                skipped["multi-step / cmd case"] += 1
                continue
            if "skip" in c.tags or "xfail" in c.tags:
                skipped["-skip/-xfail case"] += 1
                continue
            r = lane.flag_reason(c.flags)
            if r:
                skipped[f"flag {r}"] += 1
                continue
            if ctx.quick and n >= Q_PER_FILE:
                skipped["beyond per-file quick cap"] += 1
                continue
            if ctx.quick and estimate_error_lines(c) > Q_MAX_LINES:
                skipped["beyond quick per-program error-line cap"] += 1
                continue
            n += 1
            p = lane.program_of(c)
            p["est_lines"] = estimate_error_lines(c)
            p["probe_individual"] = ctx.quick or probe_scan(p)  # quick: every program; thorough: AST-selected ones
            progs.append(p)
    progs += generated_programs()
    info["generated_programs"] = sorted(GENERATED)
    info["files"] = [os.path.basename(f) for f in files]
    info["programs_probed_code_by_code (AST scan)"] = sum(1 for p in progs if p["probe_individual"])
    info["cases_not_used"] = dict(skipped)
    return progs, info


def run(ctx: Ctx) -> Result:
    scratch("c13")  # create the scratch root in the parent so forked workers share (and the parent removes) it
    progs, info = select_programs(ctx)
    log(f"C13: {len(progs)} programs from {len(info['files'])} files")
    items = work_items(progs)
    stats: Counter = Counter()
    violations: list[Violation] = []
    samples: list[dict] = []
    nontrivial: set[str] = set()
    outcomes: set = set()
    herr: list[str] = []
    for _i, item, st, val in pmap(run_batch, items, fresh=True, timeout=1800):
        if st != "ok":
            herr.append(f"batch starting at {item[0][0]['id']} part={item[0][1]}: {val[0]}: {str(val[1])[-400:]}")
            stats["batches_failed"] += 1
            continue
        stats.update(val["stats"])
        samples += val["samples"]
        nontrivial |= set(val["nontrivial"])
        outcomes |= {tuple(o) for o in val["outcomes"]}
        herr += val["herr"]
        for p in val["problems"]:
            what = f"{p['program']}: {p['family']} {p.get('kind') or p.get('variant') or p.get('what')}: " \
                   f"+{p['extra'][:2]} -{p['missing'][:2]}"
            violations.append(Violation(p["signature"], what[:400], p))
    violations.sort(key=lambda v: (v.signature, len(v.detail.get("main_text", "")) or 10**6, v.detail["program"]))
    cov = {
        "evaluations": stats["evaluations"] + stats["exit_status_checks"],
        "distinct_nontrivial": len(nontrivial),
        "rule": "programs for which at least one perturbation was predicted to remove at least one diagnostic",
        "exhaustive": stats["batches_failed"] == 0 and not herr,
        "programs_selected": len(progs),
        "distinct_baseline_outcomes (n_messages, blocker, n_lines)": len(outcomes),
        "bounds": {"subset_rule": f"all subsets when <= {MAX_FULL_SUBSETS} annotatable error lines, else size<=2 + full set",
                   "kinds": list(KINDS), "warn_unused_ignores": ["off", "on"],
                   "disable_variants": ["disable", "disable+enable", "disable-super", "per-module", "probe-all", "probe-all-per-module", "probe"],
                   "probe_codes": list(PROBE_CODES),
                   "quick_slice": f"{Q_FILES} files ({len(Q_ANCHORS)} fixed + seed-selected), first {Q_PER_FILE} usable cases each with <= {Q_MAX_LINES} expected error lines" if ctx.quick else "all files"},
        "samples": samples[:3],
        "counters": dict(sorted(stats.items())),
        **info,
    }
    if stats["runs_removing_something"] < 10 or stats["disable_runs_removing_something"] < 5 or stats["exit_status_checks"] < 10 \
            or len(nontrivial) < 2 or stats["runs_expecting_unused_ignore"] < 5:
        raise RuntimeError(f"vacuous exploration: {dict(stats)}")
    assumptions = [
        "blocking errors are exempt from both ignoring and disabling (docs: 'they can't be ignored')",
        "the 'Error code ... not covered by type: ignore[...]' notes are not byte-compared; they are checked for truth "
        "(present for every surviving coded error on a coded-ignore line, never naming a code that is not there)",
        "a listed super-code that removed only sub-coded errors is expected to be reported with the documented "
        "'use narrower [...]' unused-ignore hint",
        "expected ErrorInfos are rendered with mypy's own sort/dedupe/format pipeline; the model decides only which infos exist",
        "observation shims only (BuildManager capture, Errors.add_error_info/set_file wrappers, origin_span materialised to a list)",
    ]
    return Result(PROPERTY, LEVEL, cov, violations, assumptions=assumptions, harness_errors=herr)


def replay(ctx: Ctx, rec: dict) -> Result:
    d = rec["detail"]
    fname, _, name = d["program"].partition("::")
    if fname == "generated":
        prog = [p for p in generated_programs() if p["name"] == name][0]
    else:
        case = [c for c in corpus.load_file(os.path.join(corpus.UNIT, fname)) if c.name == name][0]
        prog = lane.program_of(case)
    only: dict[str, Any] = {"family": d["family"]}
    if d["family"] == "ignore":
        only.update(kind=d["kind"], warn=d["warn"], lines=d["lines"])
    elif d["family"] == "disable":
        only.update(variant=d["variant"], code=d["code"])
    else:
        only.update(what=d["what"])

    def one() -> dict:
        root = scratch("c13", f"r{os.getpid()}")
        try:
            r = explore_program(prog, os.path.join(root, "p"), only)
        finally:
            os.chdir("/")
            shutil.rmtree(root, ignore_errors=True)
        return {"problems": r["problems"], "stats": dict(r["stats"])}

    scratch("c13")
    vs = []
    val = run_isolated(one, timeout=900)
    for p in val["problems"]:
        if p["signature"] == rec["signature"]:
            vs.append(Violation(p["signature"], f"{p['program']}: reproduced", p))
    return Result(PROPERTY, LEVEL, {"evaluations": 1, "distinct_nontrivial": 2, "rule": "replay", "samples": [d["program"]],
                                    "exhaustive": True}, vs)
