"""C14 lane: one program, two parsers, on the REAL mypy (fast lane, fixture stubs).

A *program* is a picklable dict
    {"id", "main": text | None, "files": {relative path under tmp/: text or bytes}, "flags": [...],
     "pyver": (3, n), "file": corpus file name or "", "name": case name or "", "entry": ("main", "__main__")}
`main` is passed as BuildSource text exactly as mypy/test/testcheck.py does; when `main` is None the
entry module is read from disk by mypy itself (that is what the command line does, and the only way the
two front ends see the raw bytes of a file: CRLF, form feeds, BOM, encodings).

Both builds are identical except for `options.native_parser`; both run with
`show_column_numbers=True, show_error_end=True, hide_error_codes=False`.  Strength-1 output (the default
`file:line: severity: text  [code]`) is the projection of that output: `Errors.sort_messages`,
`remove_duplicates` and `render_messages` do not look at the two display options (mypy/errors.py), and
the check re-verifies the projection against a real third build on a measured number of programs.
"""

from __future__ import annotations

import os
import re
import shutil
import sys
from typing import Any

from mc import corpus

PLUGIN_DIR = os.path.join(corpus.REPO, "test-data", "unit", "plugins")

# flags that make a corpus case unusable as an input program of a single in-process cold build
SKIP_FLAG_PREFIXES = (
    "--num-workers", "-n", "--junit", "--cache-dir", "--shadow-file", "--custom-typing-module", "--package-root",
    "--pretty", "--output", "--soft-error-limit", "--bazel", "--incremental", "--cache-fine-grained", "--sqlite-cache",
    "--install-types", "--non-interactive", "--pdb", "--raise-exceptions", "--find-occurrences", "--verbose", "-v",
    "--show-absolute-path", "--skip-cache-mtime-checks", "--export-ref-info", "--timing-stats", "--line-checking-stats",
    "--dump", "--stats", "--inferstats", "--scripts-are-modules", "-m", "-p", "-c", "--python-executable",
    "--disable-expression-cache", "--native-parser",
)


def flag_reason(flags: list[str]) -> str | None:
    for t in flags:
        if t.endswith("-report") or "-report=" in t:
            return "report flag"
        for p in SKIP_FLAG_PREFIXES:
            if t == p or t.startswith(p + "="):
                return p
    return None


_TYPE_COMMENT = re.compile(r"#\s*type:\s*(?!ignore\b)")


def has_type_comment(text: str) -> bool:
    """`# type: X` with X != ignore anywhere in the text (conservative: also inside strings)."""
    return bool(_TYPE_COMMENT.search(text))


def preload() -> None:
    """Import everything a build needs in the parent, so a forked child starts 'imported, never built'."""
    import mypy.build  # noqa: F401
    import mypy.fastparse  # noqa: F401
    import mypy.main  # noqa: F401
    import mypy.nativeparse  # noqa: F401
    import mypy.parse  # noqa: F401
    import mypy.semanal_pass1  # noqa: F401


def running_pyversion() -> tuple[int, int]:
    return (sys.version_info[0], sys.version_info[1])


def testfile_pyversion(file: str) -> tuple[int, int]:
    """mypy.test.helpers.testfile_pyversion."""
    from mypy import defaults

    m = re.search(r"python3([0-9]+)\.test$", file)
    if m:
        return max((3, int(m.group(1))), defaults.PYTHON3_VERSION_MIN)
    return defaults.PYTHON3_VERSION_MIN


def program_of(c: corpus.Case, pyver: tuple[int, int] | None = None) -> dict[str, Any]:
    files: dict[str, str] = {}
    for rel, text in c.files.items():
        if re.search(r"\.\d+$", rel):
            continue  # later steps of incremental scripts: not part of the first program
        files[rel] = text + "\n"
    for attr, target in (("builtins", "builtins.pyi"), ("typing", "typing.pyi"), ("typeshed", "_typeshed.pyi")):
        fx = getattr(c, attr)
        if fx:
            with open(os.path.join(corpus.UNIT, fx), encoding="utf-8") as fh:
                files[target] = fh.read()
    return {"id": c.id, "file": c.file, "name": c.name, "main": c.main, "files": files, "flags": list(c.flags),
            "pyver": tuple(pyver) if pyver else None, "tags": list(c.tags)}


def usable_reason(c: corpus.Case) -> str | None:
    """None if the corpus case is an input of this property, else why not."""
    if c.has_cmd:
        return "cmd"
    r = flag_reason(c.flags)
    if r:
        return "flag " + r
    if has_type_comment(c.main):
        return "type comment"
    for rel, text in c.files.items():
        if rel.endswith((".py", ".pyi")) and has_type_comment(text):
            return "type comment"
    return None


def materialize(prog: dict[str, Any], root: str) -> None:
    """cwd layout of mypy.test.data.DataDrivenTestCase.setup: ./tmp/<extra files>; main is passed as text."""
    if os.path.isdir(root):
        shutil.rmtree(root)
    os.makedirs(os.path.join(root, "tmp"))
    for rel, text in prog["files"].items():
        p = os.path.join(root, "tmp", rel)
        os.makedirs(os.path.dirname(p), exist_ok=True)
        if isinstance(text, bytes):
            with open(p, "wb") as f:
                f.write(text)
        else:
            with open(p, "w", encoding="utf8", newline="") as f:
                f.write(text)


def make_options(prog: dict[str, Any], native: bool, strength2: bool = True) -> Any:
    """Options as mypy/test/testcheck.py builds them, plus the observation options of this property."""
    from mypy.main import process_options
    from mypy.options import Options

    flag_list = list(prog.get("flags") or [])
    if flag_list:
        flag_list.append("--no-site-packages")
        targets, options = process_options(flag_list, require_targets=False)
        if targets:
            raise RuntimeError("targets in flags")
    else:
        options = Options()
        options.error_summary = False
    options.hide_error_codes = False
    pv = prog.get("pyver")
    if pv:
        options.python_version = tuple(pv)
    elif all(f.split("=")[0] != "--python-version" for f in flag_list):
        options.python_version = testfile_pyversion(prog.get("file") or "")
    options.use_builtins_fixtures = True
    options.show_traceback = True
    options.native_parser = native
    options.reveal_verbose_types = not (prog.get("name") or "").endswith("_no_verbose_reveal")
    options.show_column_numbers = strength2
    options.show_error_end = strength2
    if "abstract" not in (prog.get("file") or ""):
        options.allow_empty_bodies = not (prog.get("name") or "").endswith("_no_empty")
    options.incremental = False
    options.cache_dir = os.devnull
    options.python_executable = None
    return options


def build_one(prog: dict[str, Any], root: str, native: bool, strength2: bool = True) -> dict[str, Any]:
    """One real `mypy.build.build` in THIS process (callers fork first); cwd := root (already materialized)."""
    import io

    from mypy import build as mb
    from mypy.errors import CompileError
    from mypy.modulefinder import BuildSource

    os.chdir(root)
    quiet_fd2()
    options = make_options(prog, native, strength2)
    if prog.get("main") is not None:
        sources = [BuildSource("main", "__main__", prog["main"])]
    else:
        sources = [BuildSource(path, mod, None) for path, mod in (prog.get("entries") or [prog["entry"]])]
    sys.path.insert(0, PLUGIN_DIR)
    blocker = False
    crashed = None
    serr = io.StringIO()
    sout = io.StringIO()
    real = (sys.stdout, sys.stderr)
    sys.stdout, sys.stderr = sout, serr  # report_internal_error prints to sys.stdout / sys.stderr
    try:
        res = mb.build(sources=sources, options=options, alt_lib_path="tmp", stdout=sout, stderr=serr)
        msgs = res.errors
    except CompileError as e:
        msgs = e.messages
        blocker = True
    except SystemExit as e:
        msgs = []
        crashed = f"SystemExit({e.code})"
    except BaseException as e:  # noqa: BLE001 - a crash of one parser is an observation, not a harness error
        msgs = []
        crashed = exc_kind(e)
    finally:
        sys.stdout, sys.stderr = real
        if sys.path and sys.path[0] == PLUGIN_DIR:
            del sys.path[0]
    crashed = crash_of(crashed, sout.getvalue(), serr.getvalue())
    return {"messages": list(msgs), "blocker": blocker, "crashed": crashed}


def quiet_fd2() -> None:
    """In a throw-away child: send file descriptor 2 to /dev/null (a panic of the Rust parser writes there directly)."""
    try:
        fd = os.open(os.devnull, os.O_WRONLY)
        os.dup2(fd, 2)
        os.close(fd)
    except OSError:
        pass


def exc_kind(e: BaseException) -> str:
    """Cause-level description of an exception: type, start of the message, innermost frame inside /repo."""
    import traceback

    where = ""
    for fr in reversed(traceback.extract_tb(e.__traceback__)):
        if fr.filename.startswith("/repo/"):
            where = f" @ {fr.filename[len('/repo/'):]}:{fr.name}"
            break
    msg = str(e)[:100].strip()
    return _norm_exc(f"{type(e).__name__}: {msg}" if msg else type(e).__name__) + where


def _norm_exc(s: str) -> str:
    s = re.sub(r"0x[0-9a-fA-F]+", "0x_", s)
    s = re.sub(r"<class '[^']*'>", "<class _>", s)
    return re.sub(r"\d+", "N", s).rstrip(": ")


def crash_of(crashed: str | None, out: str, err: str) -> str | None:
    """Crash description in the format of exc_kind, from the traceback mypy prints (show_traceback) when it
    reports an INTERNAL ERROR itself."""
    if crashed is not None and not crashed.startswith("SystemExit"):
        return crashed
    if crashed is None and not ("INTERNAL ERROR" in err or "Traceback (most recent call last)" in out + err):
        return None
    lines = (out + "\n" + err).splitlines()
    tb = [ln for ln in lines if re.match(r"^[A-Za-z_.]+(Error|Exception|Exit|Interrupt)\b", ln)]
    kind = _norm_exc(tb[-1][:100 + len(tb[-1].split(":")[0]) + 2]) if tb else (crashed or "INTERNAL ERROR")
    where = [ln.strip() for ln in lines if ln.strip().startswith('File "/repo/')]
    if where:
        m = re.search(r'File "/repo/([^"]+)", line \d+, in (\w+)', where[-1])
        if m:
            kind += f" @ {m.group(1)}:{m.group(2)}"
    return kind
