"""Drivers: how the harness runs the REAL mypy code under an owned environment.

Everything here imports mypy from /repo's working tree (editable install / PYTHONPATH).
Nothing in /repo is edited: instrumentation is monkey-patching inside harness processes.
"""

from __future__ import annotations

import contextlib
import io
import os
import shutil
import sys
import zlib
from typing import Any, Callable, Iterable

REPO = os.environ.get("VERIF_REPO", "/repo")
FIXTURES = os.path.join(REPO, "test-data", "unit", "fixtures")
LIB_STUB = os.path.join(REPO, "test-data", "unit", "lib-stub")

BASE_TIME = 1_600_000_000


# --------------------------------------------------------------------------- owned clock / store proxy


def det_mtime(data: bytes) -> float:
    """Content-derived record mtime: equal bytes => equal mtime; changed bytes => (a.s.) new mtime."""
    return float(BASE_TIME + zlib.crc32(data) % 1_000_000)


class StorePlan:
    """What the proxy store should do besides forwarding.

    clock: "content" (S1: mtime is a function of bytes) | "real" (leave to the store) |
           a callable(name, data, opno) -> float
    fail:  set of op numbers whose write must fail (return False)
    kill_before / kill_after: op number at which the process dies via os._exit(137)
    """

    def __init__(
        self,
        clock: Any = "content",
        fail: Iterable[int] = (),
        kill_before: int | None = None,
        kill_after: int | None = None,
        log: list | None = None,
    ) -> None:
        self.clock = clock
        self.fail = set(fail)
        self.kill_before = kill_before
        self.kill_after = kill_after
        self.n = 0
        self.log: list[tuple[int, str, str]] = log if log is not None else []
        self.on_log: Callable[[int, str, str], None] | None = None

    def tick(self, kind: str, name: str) -> int:
        k = self.n
        self.n += 1
        self.log.append((k, kind, name))
        if self.on_log is not None:
            self.on_log(k, kind, name)
        if self.kill_before is not None and k == self.kill_before:
            os._exit(137)
        return k

    def after(self, k: int) -> None:
        if self.kill_after is not None and k == self.kill_after:
            os._exit(137)

    def mtime_for(self, name: str, data: bytes, k: int) -> float | None:
        if self.clock == "content":
            return det_mtime(data)
        if self.clock == "real":
            return None
        return self.clock(name, data, k)


def make_proxy_store(options: Any, parallel_worker: bool, plan: StorePlan) -> Any:
    """A subclass instance of the REAL store class with numbered ops, owned clock, fault plan."""
    import mypy.build as mb
    import mypy.metastore as ms

    prefix = mb._cache_dir_prefix(options)
    if options.sqlite_cache:
        base: Any = ms.SqliteMetadataStore
        args: tuple = (prefix,)
        kw: dict = dict(set_journal_mode=not parallel_worker, num_shards=options.sqlite_num_shards)
    else:
        base = ms.FilesystemMetadataStore
        args = (prefix,)
        kw = {}

    class Proxy(base):  # type: ignore[misc, valid-type]
        _plan = plan

        def write(self, name: str, data: bytes, mtime: float | None = None) -> bool:
            k = plan.tick("write", name)
            if k in plan.fail:
                plan.after(k)
                return False
            if mtime is None:
                mtime = plan.mtime_for(name, data, k)
            r = super().write(name, data, mtime)
            plan.after(k)
            return r

        def remove(self, name: str) -> None:
            k = plan.tick("remove", name)
            try:
                super().remove(name)
            finally:
                plan.after(k)

        def commit(self) -> None:
            k = plan.tick("commit", "")
            super().commit()
            plan.after(k)

        def commit_path(self, name: str) -> None:
            k = plan.tick("commit_path", name)
            # call the real class's implementation (FS: falls back to commit(); avoid double count)
            if base is ms.SqliteMetadataStore:
                ms.SqliteMetadataStore.commit_path(self, name)
            plan.after(k)

    return Proxy(*args, **kw)


@contextlib.contextmanager
def patched_metastore(plan: StorePlan | None):
    """Install the proxy in this process (coordinator side)."""
    import mypy.build as mb

    if plan is None:
        yield
        return
    orig = mb.create_metastore
    mb.create_metastore = lambda options, parallel_worker: make_proxy_store(options, parallel_worker, plan)
    try:
        yield
    finally:
        mb.create_metastore = orig


# --------------------------------------------------------------------------- source trees


def write_tree(root: str, files: dict[str, tuple[str, int] | str | None], *, wipe: bool = True) -> None:
    """Materialise {relative path: (text, mtime) | text | None} under root; None = absent.

    With wipe=True every file under root/tmp that is not listed is removed (so a state is
    exactly its file map).  mtimes are set explicitly (owned clock).
    """
    tmp = os.path.join(root, "tmp")
    if wipe and os.path.isdir(tmp):
        shutil.rmtree(tmp)
    os.makedirs(tmp, exist_ok=True)
    for rel, v in files.items():
        if v is None:
            continue
        text, mt = (v, BASE_TIME) if isinstance(v, str) else v
        p = os.path.join(root, rel)
        os.makedirs(os.path.dirname(p), exist_ok=True)
        with open(p, "w", newline="") as f:
            f.write(text)
        os.utime(p, (mt, mt))
    fix_dir_mtimes(tmp)


def fix_dir_mtimes(top: str) -> None:
    """Directory mtimes are part of the owned clock too (namespace-package metas record them):
    a directory's mtime is a function of its entry names, as if it changed when entries did."""
    for d, subdirs, files in os.walk(top, topdown=False):
        mt = BASE_TIME + zlib.crc32(",".join(sorted(subdirs + files)).encode()) % 1000
        os.utime(d, (mt, mt))


def install_fixture(root: str, fixture: str | None, typing_fixture: str | None = None) -> None:
    """Copy test-data/unit/fixtures/<fixture> to tmp/builtins.pyi like `[builtins fixtures/x.pyi]`."""
    if typing_fixture:
        dst = os.path.join(root, "tmp", "typing.pyi")
        shutil.copyfile(os.path.join(FIXTURES, typing_fixture), dst)
        os.utime(dst, (BASE_TIME, BASE_TIME))
        fix_dir_mtimes(os.path.join(root, "tmp"))
    if fixture:
        dst = os.path.join(root, "tmp", "builtins.pyi")
        shutil.copyfile(os.path.join(FIXTURES, fixture), dst)
        os.utime(dst, (BASE_TIME, BASE_TIME))
        fix_dir_mtimes(os.path.join(root, "tmp"))


# --------------------------------------------------------------------------- fast lane


def make_options(
    *,
    cache_dir: str | None,
    store: str = "fs",
    fmt: str = "ff",
    fixtures: bool = True,
    overrides: dict[str, Any] | None = None,
    per_module: dict[str, dict[str, Any]] | None = None,
) -> Any:
    from mypy.options import Options

    o = Options()
    o.use_builtins_fixtures = fixtures
    o.show_traceback = True
    o.error_summary = False
    o.python_executable = None  # like --no-site-packages: nothing from the harness' own sys.path
    o.hide_error_codes = False
    if cache_dir is None:
        o.incremental = False
        o.cache_dir = os.devnull
    else:
        o.incremental = True
        o.cache_dir = cache_dir
    o.sqlite_cache = store == "sqlite"
    o.fixed_format_cache = fmt == "ff"
    for k, v in (overrides or {}).items():
        if not hasattr(o, k):
            raise AttributeError(f"unknown option {k}")
        setattr(o, k, v)
    if per_module:
        for pat, d in per_module.items():
            o.per_module_options[pat] = dict(d)
        # Options caches per-module structures lazily
    return o


def build_inproc(spec: dict[str, Any]) -> dict[str, Any]:
    """One real `mypy.build.build` call in THIS process (callers fork first).

    spec keys:
      root      cwd for the build (contains tmp/ with sources)
      sources   list of (path, module) or (path, module, text); path relative to root
      cache_dir relative/absolute cache dir, or None => cold (cache_dir=os.devnull, incremental off)
      store, fmt, overrides, per_module   -> make_options
      fixtures  bool (default True): fixture stubs; False => bundled typeshed
      plan      StorePlan | None  (None => no proxy, real clock)
      alt_lib   alt_lib_path (default "tmp" when fixtures)
      num_workers, worker_env
    Returns {messages, blocker, rechecked, stale, modules, oplog, crashed}
    """
    from mypy import build as mb
    from mypy.errors import CompileError
    from mypy.modulefinder import BuildSource

    os.chdir(spec["root"])
    fixtures = spec.get("fixtures", True)
    o = make_options(
        cache_dir=spec.get("cache_dir"),
        store=spec.get("store", "fs"),
        fmt=spec.get("fmt", "ff"),
        fixtures=fixtures,
        overrides=spec.get("overrides"),
        per_module=spec.get("per_module"),
    )
    srcs = []
    for s in spec["sources"]:
        path, mod = s[0], s[1]
        text = s[2] if len(s) > 2 else None
        srcs.append(BuildSource(path, mod, text))
    plan: StorePlan | None = spec.get("plan")
    out: dict[str, Any] = {"blocker": False, "crashed": None}
    alt = spec.get("alt_lib", "tmp" if fixtures else None)
    serr = io.StringIO()
    sout = io.StringIO()
    res = None
    with patched_metastore(plan):
        try:
            res = mb.build(
                sources=srcs,
                options=o,
                alt_lib_path=alt,
                stdout=sout,
                stderr=serr,
                worker_env=spec.get("worker_env"),
            )
            msgs = res.errors
        except CompileError as e:
            msgs = e.messages
            out["blocker"] = True
        except SystemExit as e:
            msgs = [f"<SystemExit {e.code}>"]
            out["crashed"] = f"SystemExit({e.code}) stderr={serr.getvalue()[-2000:]}"
    out["messages"] = list(msgs)
    out["stderr"] = serr.getvalue()
    out["stdout"] = sout.getvalue()
    if "INTERNAL ERROR" in out["stderr"] or "Traceback (most recent call last)" in out["stderr"]:
        out["crashed"] = out["stderr"][-3000:]
    if res is not None:
        m = res.manager
        out["rechecked"] = sorted(m.rechecked_modules)
        out["stale"] = sorted(m.stale_modules)
        out["modules"] = sorted(m.modules)
        try:
            m.metastore.close()
        except Exception:
            pass
    else:
        out["rechecked"] = out["stale"] = out["modules"] = None
    out["oplog"] = list(plan.log) if plan is not None else None
    return out


# --------------------------------------------------------------------------- cache listing (canonical K)


def cache_listing(root: str, cache_dir: str, store: str, fmt: str, with_bytes: bool = False) -> list[tuple]:
    """Sorted (record name, sha1(bytes), int(mtime)) read back through the REAL store API."""
    import hashlib

    import mypy.build as mb
    import mypy.metastore as ms

    o = make_options(cache_dir=cache_dir, store=store, fmt=fmt)
    cwd = os.getcwd()
    os.chdir(root)
    try:
        prefix = mb._cache_dir_prefix(o)
        if not os.path.isdir(prefix):
            return []
        if store == "sqlite":
            if not any(n.startswith("cache") and n.endswith(".db") for n in os.listdir(prefix)):
                return []
            st: Any = ms.SqliteMetadataStore(prefix, num_shards=o.sqlite_num_shards)
        else:
            st = ms.FilesystemMetadataStore(prefix)
        out = []
        for name in sorted(st.list_all()):
            base = os.path.basename(name)
            if store == "fs" and (base in ("cache.db",) or base.startswith("cache.db") or base == "missing_stubs"):
                continue
            try:
                data = st.read(name)
                mt = int(st.getmtime(name))
            except OSError:
                continue
            if with_bytes:
                out.append((name, data, mt))
            else:
                out.append((name, hashlib.sha1(data).hexdigest(), mt))
        st.close()
        return out
    finally:
        os.chdir(cwd)


# --------------------------------------------------------------------------- CLI lane (in-process)


def cli_inproc(args: list[str], cwd: str, fixtures: bool = False) -> dict[str, Any]:
    """mypy.main.main(args=...) in THIS process (callers fork first).  Real option processing."""
    import mypy.main as mm

    os.chdir(cwd)
    so, se = io.StringIO(), io.StringIO()
    code = 0
    orig_init = None
    if fixtures:
        from mypy.options import Options

        orig_init = Options.__init__

        def patched(self: Any, *a: Any, **k: Any) -> None:
            orig_init(self, *a, **k)  # type: ignore[misc]
            self.use_builtins_fixtures = True

        Options.__init__ = patched  # type: ignore[method-assign]
    try:
        try:
            mm.main(args=list(args), stdout=so, stderr=se, clean_exit=True)
        except SystemExit as e:
            code = e.code if isinstance(e.code, int) else (0 if e.code is None else 2)
    finally:
        if orig_init is not None:
            from mypy.options import Options

            Options.__init__ = orig_init  # type: ignore[method-assign]
    return {"stdout": so.getvalue(), "stderr": se.getvalue(), "status": code}


def cli_subprocess(args: list[str], cwd: str, env: dict[str, str] | None = None, timeout: float = 300) -> dict[str, Any]:
    """The real `python -m mypy` (confirmation lane), working tree on PYTHONPATH."""
    import subprocess

    e = dict(os.environ)
    e["PYTHONPATH"] = REPO
    e.pop("PYTHON_MYPY_VERIF", None)
    if env:
        e.update(env)
    p = subprocess.run(
        [sys.executable, "-m", "mypy", *args], cwd=cwd, env=e, capture_output=True, text=True, timeout=timeout
    )
    return {"stdout": p.stdout, "stderr": p.stderr, "status": p.returncode}
