"""C01 batch executor: real mypy.build.build on a generated module, then CPython on every input.

run_batch(job) must be called in a freshly forked process (it runs mypy.build.build).
job = {"specs": [...], "cache": warmed stdlib cache dir, "work": scratch dir, "modname": str}
"""

from __future__ import annotations

import io
import itertools
import os
import re
import sys
import traceback
from collections import Counter
from typing import Any

from mc import c01_gen as gen

_MSG = re.compile(r"^[^:\n]+:(\d+)(?::\d+)*: (error|note|warning): (.*)$")
MAX_CALLS_PER_FUNCTION = 4096


def build_module(text: str, modname: str, cache: str | None, work: str) -> tuple[list[str], Any]:
    """One real build (bundled typeshed, export_types, preserve_asts). Returns (messages, BuildResult)."""
    from mypy import build as mb
    from mypy.errors import CompileError
    from mypy.modulefinder import BuildSource

    from mc.drivers import make_options

    os.makedirs(work, exist_ok=True)
    os.chdir(work)
    _observe_all_passes()
    o = make_options(cache_dir=cache, fixtures=False, overrides={"export_types": True, "preserve_asts": True})
    so, se = io.StringIO(), io.StringIO()
    try:
        res = mb.build([BuildSource(f"{modname}.py", modname, text)], o, stdout=so, stderr=se)
    except CompileError as e:
        raise RuntimeError("generated module does not compile (generator bug or mypy blocker): "
                           + "\n".join(e.messages[:5]))
    except SystemExit:
        raise RuntimeError("mypy INTERNAL ERROR on generated module: " + (so.getvalue() + se.getvalue())[-1500:])
    return list(res.errors), res


# mypy checks the body of a `finally` clause twice (exceptional path first, normal path second) and the
# exported type map keeps only the LAST pass.  Both passes report their diagnostics, so the static claim
# about an expression inside `finally` is the union over the passes.  The harness observes every
# store_type call (observation only; nothing is changed) and uses all recorded types for such probes.
PASSES: dict[Any, list] = {}


def _observe_all_passes() -> None:
    import mypy.checker as ck

    if getattr(ck.TypeChecker.store_type, "_c01", False):
        return
    orig = ck.TypeChecker.store_type

    def store_type(self: Any, node: Any, typ: Any) -> None:
        lst = PASSES.get(node)
        if lst is None:
            PASSES[node] = [typ]
        elif typ is not lst[-1]:
            lst.append(typ)
        orig(self, node, typ)

    store_type._c01 = True  # type: ignore[attr-defined]
    ck.TypeChecker.store_type = store_type  # type: ignore[method-assign]


def collect_probes(res: Any, modname: str) -> dict[str, dict[int, dict]]:
    """function name -> probe id -> {"type": mypy Type | None, "line": int, "dead_block": bool}."""
    from mypy.nodes import Block, CallExpr, FuncDef, IntExpr, NameExpr, TryStmt
    from mypy.traverser import TraverserVisitor

    types = res.types
    out: dict[str, dict[int, dict]] = {}

    class V(TraverserVisitor):
        def __init__(self) -> None:
            super().__init__()
            self.fn: list[str] = []
            self.dead = 0
            self.in_finally = 0

        def visit_func_def(self, o: FuncDef) -> None:
            top = not self.fn
            self.fn.append(o.name)
            if top:
                out.setdefault(o.name, {})
            super().visit_func_def(o)
            self.fn.pop()

        def visit_block(self, b: Block) -> None:
            d = 1 if b.is_unreachable else 0
            self.dead += d
            super().visit_block(b)
            self.dead -= d

        def visit_try_stmt(self, o: TryStmt) -> None:
            fb = o.finally_body
            o.finally_body = None
            try:
                super().visit_try_stmt(o)
            finally:
                o.finally_body = fb
            if fb is not None:
                self.in_finally += 1
                fb.accept(self)
                self.in_finally -= 1

        def visit_call_expr(self, e: CallExpr) -> None:
            if (self.fn and isinstance(e.callee, NameExpr) and e.callee.name == "probe" and len(e.args) == 2
                    and isinstance(e.args[0], IntExpr)):
                tab = out[self.fn[0]]
                pid = e.args[0].value
                if pid in tab:
                    raise RuntimeError(f"duplicate probe id {pid} in {self.fn[0]}")
                t = types.get(e.args[1])
                if self.in_finally and t is not None:
                    allp = PASSES.get(e.args[1]) or [t]
                    if len(allp) > 1:
                        from mypy.types import UnionType

                        t = UnionType(list(allp))  # plain (unsimplified) union of the per-pass claims
                tab[pid] = {"type": t, "line": e.line, "dead_block": self.dead > 0}
            super().visit_call_expr(e)

    tree = res.graph[modname].tree
    assert tree is not None
    tree.accept(V())
    return out


class _Recorder:
    def __init__(self, env: Any) -> None:
        self.env = env
        self.table: dict[int, dict] = {}
        self.obs: list[tuple] = []  # (pid, verdict, value repr, type str)

    def __call__(self, i: int, v: Any) -> Any:
        from mc.c01_member import member, precision

        ent = self.table.get(i)
        if ent is None:
            self.obs.append((i, "no-such-probe", _r(v), "?"))
            return v
        t = ent["type"]
        if t is None:
            self.obs.append((i, "unreachable", _r(v), "<no type-map entry>" + (" [block.is_unreachable]" if ent["dead_block"] else "")))
            return v
        try:
            m = member(v, t, self.env)
        except Exception as e:  # oracle bug: never a violation
            self.obs.append((i, "oracle-error", _r(v), f"{type(e).__name__}: {e}"))
            return v
        if m is True:
            self.obs.append((i, "ok-" + precision(v, t, self.env), None, None))
        elif m is None:
            self.obs.append((i, "undecided", None, str(t)))
        else:
            self.obs.append((i, "not-member", _r(v), str(t)))
        return v


def _r(v: Any) -> str:
    try:
        s = repr(v)
    except Exception:
        s = f"<{type(v).__name__}>"
    s = re.sub(r" at 0x[0-9a-f]+", "", s)
    s = re.sub(r"<c01[a-z0-9_]*\.", "<m.", s)
    return s[:120]


def _innermost_in(tb: Any, filename: str) -> bool:
    while tb.tb_next is not None:
        tb = tb.tb_next
    return tb.tb_frame.f_code.co_filename == filename


def _innermost_line(tb: Any) -> int:
    while tb.tb_next is not None:
        tb = tb.tb_next
    return int(tb.tb_lineno)


def run_batch(job: dict) -> dict:
    specs: list[dict] = job["specs"]
    modname: str = job["modname"]
    text, spans, prelude_last = gen.render_module(specs)
    def_lines = list(gen.DEF_LINES)
    msgs, res = build_module(text, modname, job["cache"], job["work"])
    by_fn: dict[int, list[str]] = {}
    prelude_msgs = []
    for m in msgs:
        mm = _MSG.match(m)
        if not mm:
            raise RuntimeError(f"unparseable mypy output: {m!r}")
        ln = int(mm.group(1))
        if ln <= prelude_last:
            if mm.group(2) != "note":  # "... defined here" notes may point into the prelude
                prelude_msgs.append(m)
            continue
        # binary search not needed: spans are few hundred
        for i, (a, b) in enumerate(spans):
            if a <= ln <= b:
                by_fn.setdefault(i, []).append(mm.group(3))
                break
        else:
            raise RuntimeError(f"diagnostic outside every span: {m!r}")
    if prelude_msgs:
        raise RuntimeError("mypy rejects the harness prelude (value domains are not of the declared types?): "
                           + " | ".join(prelude_msgs[:3]))
    probes = collect_probes(res, modname)
    from bisect import bisect_right

    from mypy.types import AnyType, get_proper_type

    # "Any-free fragment": a function in which mypy typed some expression as plain Any (e.g. typeshed's
    # int.__pow__ -> Any) is outside the property's fragment: executed and counted, never flagged.
    starts = [a for a, _b in spans]
    tainted: set[int] = set()
    for e, t in res.types.items():
        if type(t) is AnyType or (type(t).__name__ == "TypeAliasType" and isinstance(get_proper_type(t), AnyType)):
            k = bisect_right(starts, e.line) - 1
            if k >= 0 and def_lines[k] <= e.line <= spans[k][1]:
                tainted.add(k)

    from mc.c01_member import Env

    filename = f"<{modname}>"
    import types as _pytypes

    pymod = _pytypes.ModuleType(modname)
    sys.modules[modname] = pymod  # dataclasses / enum look the defining module up by name
    ns: dict[str, Any] = pymod.__dict__
    code = compile(text, filename, "exec")
    exec(code, ns)
    env = Env(modname, ns)
    rec = _Recorder(env)
    ns["probe"] = rec

    stats: Counter[str] = Counter()
    viols: list[dict] = []
    outcomes: Counter[str] = Counter()
    static_types: set[str] = set()
    samples: list[dict] = []
    rejected_msgs: Counter[str] = Counter()
    undecided_types: Counter[str] = Counter()
    for i, s in enumerate(specs):
        stats["functions"] += 1
        if i in by_fn:
            stats["rejected"] += 1
            rejected_msgs[re.sub(r'"[^"]*"', '"…"', by_fn[i][0])[:80]] += 1
            continue
        stats["accepted"] += 1
        if i in tainted:
            stats["accepted_outside_fragment_any"] += 1
        fname = f"f{i}"
        tab = probes.get(fname, {})
        rec.table = tab
        if "recv" in s:
            doms = [ns[f"rdom{i}"]]
            reprs = [[v.replace("§", "") for v in s["recv"][1]]]
        else:
            doms = [ns[gen.domain_fn(t)] for t in s["params"]]
            reprs = [gen.TYPES[t][1] for t in s["params"]]
        sizes = [len(d()) for d in doms]
        ncalls = 1
        for z in sizes:
            ncalls *= z
        if ncalls > MAX_CALLS_PER_FUNCTION:
            raise RuntimeError(f"input space of {s['key']} too large: {ncalls}")
        fn = ns[fname]
        seen_probe: set[int] = set()
        fn_flags: set[str] = set()
        for idx in itertools.product(*[range(z) for z in sizes]):
            args = [d()[k] for d, k in zip(doms, idx)]  # fresh values for every call
            argrepr = [r[k] for r, k in zip(reprs, idx)]
            rec.obs = []
            exc = None
            try:
                fn(*args)
            except RecursionError:
                exc = ("RecursionError", False, "", -1)
            except BaseException as e:  # noqa: BLE001
                inner = _innermost_in(e.__traceback__, filename) if e.__traceback__ is not None else False
                exc = (type(e).__name__, inner, str(e)[:160], _innermost_line(e.__traceback__) if inner else -1)
            stats["calls"] += 1
            for pid, verdict, vrep, trep in rec.obs:
                stats["probe_observations"] += 1
                stats["obs_" + verdict] += 1
                if verdict == "undecided":
                    undecided_types[_modfree(trep)] += 1
                seen_probe.add(pid)
                if verdict in ("not-member", "unreachable") and i in tainted:
                    stats["unflagged_outside_fragment_any"] += 1
                elif verdict == "not-member":
                    fn_flags.add("b")
                    viols.append(_viol(s, i, "b", argrepr, pid, vrep, _modfree(trep), text, spans))
                elif verdict == "unreachable":
                    fn_flags.add("c")
                    viols.append(_viol(s, i, "c", argrepr, pid, vrep, trep, text, spans))
                elif verdict in ("oracle-error", "no-such-probe"):
                    stats["oracle_errors"] += 1
                    viols.append({"harness": f"{verdict} {trep} in {s['key']}"})
            if exc is not None:
                outcomes["raise:" + exc[0]] += 1
                if exc[0] in ("TypeError", "AttributeError") and exc[1] and i in tainted:
                    stats["unflagged_outside_fragment_any"] += 1
                elif exc[0] in ("TypeError", "AttributeError") and exc[1]:
                    dead = [p for p, ent in tab.items() if ent["line"] == exc[3] and ent["type"] is None]
                    if dead:
                        # raised by an expression mypy never checked because it treated it as unreachable:
                        # that is clause (c) (unreachable code executed), of which the error is a consequence
                        fn_flags.add("c")
                        stats["obs_unreachable_raised"] += 1
                        viols.append(_viol(s, i, "c", argrepr, dead[0], exc[0] + ": " + exc[2],
                                           "<no type-map entry>", text, spans))
                    else:
                        fn_flags.add("a")
                        viols.append(_viol(s, i, "a", argrepr, None, exc[0] + ": " + exc[2], "", text, spans))
                elif exc[0] in ("TypeError", "AttributeError"):
                    stats["type_errors_raised_in_library_frames"] += 1  # not clause (a): innermost frame is not program code
                elif exc[0] == "RecursionError":
                    viols.append({"harness": f"RecursionError in {s['key']}"})
            else:
                outcomes["return"] += 1
        stats["executed_functions"] += 1
        # non-triviality: some executed probe has a static type different from every declared parameter type
        decl = {_norm(gen.TYPES[t][0]) for t in s["params"]} if s["fam"] == "F1" else {"object", "Any"}
        narrowed = False
        for pid in seen_probe:
            t = tab[pid]["type"] if pid in tab else None
            if t is not None:
                ts = _modfree(str(t))
                static_types.add(ts)
                if _norm(ts) not in decl:
                    narrowed = True
        if narrowed:
            stats["nontrivial"] += 1
        stats["probes_static"] += len(tab)
        stats["probes_never_executed"] += len(set(tab) - seen_probe)
        if len(samples) < 2 and narrowed and not fn_flags:
            a, b = spans[i]
            samples.append({"key": s["key"], "source": "\n".join(text.split("\n")[a - 1:b]),
                            "probe_types": {str(p): (_modfree(str(tab[p]["type"])) if tab[p]["type"] is not None
                                                     else "<unreachable: no type-map entry>") for p in sorted(tab)}})
    return {"stats": dict(stats), "violations": viols, "outcomes": dict(outcomes),
            "static_types": sorted(static_types)[:400], "n_static_types": len(static_types), "samples": samples,
            "rejected_msgs": dict(rejected_msgs.most_common(8)),
            "undecided_types": dict(undecided_types.most_common(20))}


def _modfree(s: str) -> str:
    return re.sub(r"\bc01[a-z0-9_]*\.", "", s)


def _norm(s: str) -> str:
    s = s.replace("builtins.", "").replace("typing.", "")
    s = re.sub(r"\bc01[a-z0-9_]*\.", "", s)
    s = s.replace("Optional[", "Union[None, ").replace(" ", "")
    if s.startswith("Union["):
        s = "|".join(sorted(_split_top(s[6:-1])))
    elif "|" in s:
        s = "|".join(sorted(_split_top(s, "|")))
    return s


def _split_top(s: str, sep: str = ",") -> list[str]:
    parts, depth, cur = [], 0, ""
    for ch in s:
        if ch in "[(":
            depth += 1
        elif ch in "])":
            depth -= 1
        if ch == sep and depth == 0:
            parts.append(cur)
            cur = ""
        else:
            cur += ch
    parts.append(cur)
    return [p.strip() for p in parts if p.strip()]


def _viol(s: dict, i: int, clause: str, argrepr: list[str], pid: int | None, vrep: Any, trep: Any, text: str,
          spans: list[tuple[int, int]]) -> dict:
    a, b = spans[i]
    if "recv" in s:  # per-function class copies are named <stem><function index>: keep reports index-free
        def fix(x: Any) -> Any:
            return re.sub(rf"\b([A-Z][A-Za-z]*?\d?){i}\b", r"\1", x) if isinstance(x, str) else x
        vrep, trep = fix(vrep), fix(trep)
    return {"clause": clause, "key": s["key"], "fam": s["fam"], "form": s.get("form", ""), "args": argrepr,
            "probe": pid, "value": vrep, "static": trep, "source": "\n".join(text.split("\n")[a - 1:b]),
            "spec": s}
