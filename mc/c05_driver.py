"""C05 helper: observation, oracle and evaluation driver.

Run as `python -m mc.c05_driver JOB.json` in a process of its own (it imports compiled extensions,
which may crash).  It never imports mypy.

For every module of the job the compiled extension (from `build_dir`) and THE SAME SOURCE FILE imported
by the interpreter (from the sibling `ref_dir`, under the same module name, so reprs/`__module__` agree)
are loaded.  A *unit* is one generated function/class plus its cases:

    unit = {"name", "module", "family", "construct",
            "doms": [[expr, ...], ...]   # argument value domains (Python expressions, evaluated afresh
                                         # for every call and every side); cases = full product
            "calls": [expr, ...]         # call expressions over M (the module), a0..an and the helpers
            "alias": bool}               # additionally pass the same object for a0 and a1 (a1 = a0)

Every (argument tuple x call) is evaluated against both modules and the observations
(result canon incl. type class | exception type + payload, stdout, state of the passed-in objects
afterwards) are compared.
"""

from __future__ import annotations

import copy
import ctypes
import importlib
import importlib.util
import io
import itertools
import json
import os
import pickle
import re
import sys
import types
from typing import Any

# --------------------------------------------------------------------------- canonical observations

_ADDR = re.compile(r" at 0x[0-9a-fA-F]+")
_VIEWS = {"dict_keys", "dict_values", "dict_items"}
MAX_DEPTH = 10
MAX_ITER = 64


def _scrub(s: str) -> str:
    return _ADDR.sub("", s)


def canon(v: Any, d: int = 0) -> Any:
    """Canonical comparable form: type class + value, recursively.  Sets are order-normalised, objects
    with default reprs lose their address, iterators are drained (bounded), native/interpreted instances
    are shown through their generated `_state()` method."""
    if d > MAX_DEPTH:
        return ("deep",)
    t = type(v)
    if t is StepLog:
        return ("steplog", [list(x) for x in v], v.positional)
    if v is None or t is bool or t is int or t is str or t is bytes or t is float or t is complex:
        return (t.__name__, repr(v))
    if t is list or t is tuple:
        return (t.__name__, [canon(x, d + 1) for x in v])
    if t is dict:
        return ("dict", [(canon(k, d + 1), canon(x, d + 1)) for k, x in list(v.items())])
    if t is set or t is frozenset:
        return (t.__name__, sorted((canon(x, d + 1) for x in v), key=repr))
    if t is bytearray or t is range:
        return (t.__name__, repr(v))
    if t is slice:
        return ("slice", [canon(v.start, d + 1), canon(v.stop, d + 1), canon(v.step, d + 1)])
    if isinstance(v, type):
        return ("type", v.__qualname__)
    if isinstance(v, BaseException):
        return ("exception", t.__qualname__, canon(v.args, d + 1))
    name = t.__name__
    if name in _VIEWS:
        return (name, canon(list(v), d + 1))
    st = getattr(t, "_state", None)
    if st is not None:
        try:
            return ("instance", t.__qualname__, canon(v._state(), d + 1))
        except Exception as e:  # noqa: BLE001
            return ("instance", t.__qualname__, "state-raises", type(e).__qualname__)
    if hasattr(t, "__next__"):
        items = []
        end: Any = "more"
        try:
            for _ in range(MAX_ITER):
                items.append(canon(next(v), d + 1))
        except StopIteration as e:
            end = ("stop", canon(e.value, d + 1))
        except Exception as e:  # noqa: BLE001
            end = ("raises", type(e).__qualname__)
        return ("iterator", items, end)
    if callable(v) and not isinstance(v, types.SimpleNamespace):
        return ("callable", getattr(v, "__qualname__", name))
    if isinstance(v, (int, str, float, tuple, list, dict, set, frozenset, bytes)):
        # subclass of a builtin: keep the class name
        return ("sub", t.__qualname__, _scrub(repr(v)))
    return ("obj", t.__qualname__, _scrub(repr(v)))


PAYLOAD_TYPES = ("KeyError", "IndexError")
PROGRAM_MARK = "P:"


_BUF = io.StringIO()
# PyErr_Occurred() through ctypes.pythonapi: if a call returned normally but left an exception set, the
# ctypes call itself raises it here (instead of it surfacing at some unrelated later operation)
_err_check = ctypes.pythonapi.PyErr_Occurred
_err_check.restype = ctypes.c_void_p
_err_check.argtypes = []


def observe(M: Any, setup: list, call: Any, alias: bool, modnames: tuple, target: Any = None) -> tuple:
    """One evaluation.  Returns (outcome, stdout, final state of the passed-in objects, message)."""
    ns = dict(HELPERS)
    ns["M"] = M
    vals = []
    for i, code in enumerate(setup):
        x = eval(code, HELPERS)
        vals.append(x)
        ns[f"a{i}"] = x
    if alias:
        ns["a1"] = vals[1] = vals[0]
    buf = _BUF
    old = sys.stdout
    sys.stdout = buf
    msg = None
    try:
        try:
            if target is not None:
                ns["F"] = eval(target, ns)
            r = eval(call, ns)
            try:
                _err_check()
                out: tuple = ("val", canon(r))
            except BaseException as leak:  # noqa: BLE001
                out = ("leak", type(leak).__qualname__, None)
                msg = "returned normally but left an exception set"
            del r
        except RecursionError:
            raise
        except BaseException as e:  # noqa: BLE001 - every exception type is an outcome
            if isinstance(e, KeyboardInterrupt):
                raise
            tn = type(e).__qualname__
            try:
                msg = _scrub(str(e))
            except Exception:  # noqa: BLE001
                msg = "<str() failed>"
            own = type(e).__module__ in modnames or any(
                isinstance(a, str) and a.startswith(PROGRAM_MARK) for a in e.args)
            payload = canon(e.args) if (own or tn in PAYLOAD_TYPES) else None
            out = ("exc", tn, payload)
            del e
    finally:
        sys.stdout = old
    so = ""
    if buf.tell():
        so = buf.getvalue()
        buf.seek(0)
        buf.truncate(0)
    state = [canon(x) for x in vals] if vals else []
    return out, so, state, msg


def compare(ref: tuple, got: tuple) -> str | None:
    """Kind of disagreement between the interpreter's and the compiled module's observation, or None."""
    (ro, rs, rm, _), (go, gs, gm, _) = ref, got
    if ro[0] == "leak" or go[0] == "leak":
        return "exception-left-pending"
    if ro[0] != go[0]:
        return "exception-missing" if ro[0] == "exc" else "exception-unexpected"
    if ro[0] == "exc":
        if ro[1] != go[1]:
            return "exception-type"
        if ro[2] != go[2]:
            return "exception-payload"
    elif ro[1] != go[1]:
        return "result-type" if ro[1][0] != go[1][0] else "result"
    if rs != gs:
        return "stdout"
    if rm != gm:
        return "mutation"
    return None


_NUM = re.compile(r"\d+")
_QUOTED = re.compile(r"'[^']*'")
_FN = re.compile(r"^[\w.]+\(\)")


def cause_key(unit: dict, kind: str, call: str, r: tuple, g: tuple) -> str:
    """Cause-level class of a mismatch (the stable part of the violation signature after the construct)."""
    fam = unit.get("family")
    if fam == "o":
        # the log (state of the passed-in list) differs: one cause, however else it shows
        if r[2] != g[2]:
            return "evaluation"
        return kind
    if fam == "h":
        tag = (unit.get("call_tags") or {}).get(call, "?:?")
        lvl, what = tag.split(":", 1)
        if kind == "result" and r[0][1][0] == "steplog" and g[0][1][0] == "steplog":
            return what + "|" + hier_step_diff(r[0][1][1], g[0][1][1], lvl)
        return what + "|" + kind
    if kind == "result" and r[0][1][0] == "steplog" and g[0][1][0] == "steplog":
        return "result|" + step_diff(r[0][1][1], g[0][1][1], r[0][1][2])
    sh = unit.get("shapes")
    if sh is not None:
        for n in sh.get("po_names", ""):
            if f"{n}=" in call or f"'{n}':" in call:
                return "posonly-parameter-passed-by-keyword"
        if r[0][0] == "exc":
            m = _NUM.sub("N", _QUOTED.sub("X", _FN.sub("f()", r[3] or ""))).replace("from N to N", "N")
            return kind + "|interpreter: " + m[:80]
    return kind


def show(o: tuple) -> str:
    out, so, st, msg = o
    if out[0] == "leak":
        s = f"returns normally with a pending {out[1]}"
    elif out[0] == "exc":
        s = f"raises {out[1]}({msg!r})"
    else:
        s = "returns " + _short(out[1])
    if so:
        s += f" stdout={so!r}"
    return s


def _short(c: Any) -> str:
    s = _flat(c)
    return s if len(s) <= 300 else s[:300] + "..."


def _flat(c: Any) -> str:
    if isinstance(c, tuple) and len(c) == 3 and c[0] == "steplog":
        return "steps[" + "; ".join(" ".join(str(y) for y in x) for x in c[1]) + "]"
    if isinstance(c, tuple) and len(c) == 2 and isinstance(c[0], str) and isinstance(c[1], str):
        return f"{c[0]}:{c[1]}"
    if isinstance(c, tuple) and len(c) == 2 and isinstance(c[0], str) and isinstance(c[1], list):
        return f"{c[0]}[" + ", ".join(_flat(x) for x in c[1]) + "]"
    if isinstance(c, (tuple, list)):
        return "(" + ", ".join(_flat(x) for x in c) + ")"
    return str(c)


# --------------------------------------------------------------------------- helpers visible to cases


class Box:
    """A plain interpreted object with one settable attribute (for getattr/setattr/weakref cases)."""

    def __init__(self, a: Any = 1) -> None:
        self.a = a

    def _state(self) -> Any:
        return sorted(self.__dict__.items())

    def __repr__(self) -> str:
        return f"Box({self.a!r})"


class StepLog(list):
    """Log of a scripted interaction (one entry per step); compared step by step."""

    positional = True  # whether "first step" vs "later step" is part of the cause (generator protocol)


def step_diff(ref: list, got: list, positional: bool = True) -> str:
    """Cause-level description of the first differing step of two StepLogs."""
    for i, (r, g) in enumerate(zip(ref, got)):
        if r != g:
            where = ("first" if i == 0 else "later") if positional else "step"

            def cls(x: list) -> str:
                k = x.index("raises") if "raises" in x else -1
                if k >= 0:
                    return "raises-" + ("thrown-exception" if x[0] == "throw" else str(x[k + 1]))
                return "stop" if "stop" in x[:3] else "value"

            rc, gc = cls(list(r)), cls(list(g))
            op = r[0]
            if positional and i > 0 and op in ("next", "send"):
                op = "resume"  # next() and send(x) into a started generator are the same operation
                # ... and what it raises is whatever exception is in flight, not part of the cause
                rc = "raises" if rc.startswith("raises-") else rc
                gc = "raises" if gc.startswith("raises-") else gc
            if rc == gc:
                return f"{where}-{op}:{rc}-differs"
            return f"{where}-{op}:{rc}=>{gc if gc.startswith('raises') else 'no-exception' if rc.startswith('raises') else gc}"
    return "length"


_ATTR_KIND = {"x": "class-level default", "s": "class-level default", "i": "attribute set by __init__",
              "n": "method", "m": "overridable method", "p": "property", "z": "absent attribute"}


def hier_step_diff(ref: list, got: list, lvl: str) -> str:
    """Family (h): cause-level description of the first differing step of two apply_seq logs on an instance of
    the class at level `lvl` of a chain (attribute names end in the level that defines them)."""
    for r, g in zip(ref, got):
        if r != g:
            op, attr = r[0], str(r[1])
            kind = _ATTR_KIND.get(attr[0], "attribute")
            rel = ""
            if attr[-1].isdigit() and lvl.isdigit():
                rel = "own " if attr[-1] == lvl else "inherited " if attr[-1] < lvl else "subclass-only "

            def cls(x: list) -> str:
                return "raises-" + str(x[x.index("raises") + 1]) if "raises" in x else "value"

            rc, gc = cls(list(r)), cls(list(g))
            return f"{op} {rel}{kind}:{rc}=>{gc}" if rc != gc else f"{op} {rel}{kind}:{rc}-differs"
    return "length"


def after(obj: Any, steps: list) -> Any:
    """Apply ('set', attr, v) / ('del', attr) steps (outcomes ignored) and return the object."""
    for step in steps:
        try:
            if step[0] == "set":
                setattr(obj, step[1], step[2])
            elif step[0] == "del":
                delattr(obj, step[1])
        except Exception:  # noqa: BLE001, S110
            pass
    return obj


SIDES: dict[int, dict[str, Any]] = {}  # id(module) -> {module name: module} of the side the module belongs to


def pickled(M: Any, obj: Any) -> Any:
    """pickle round trip of an object of one side: classes are pickled by reference (module name + qualname), so
    the side's own modules are installed in sys.modules for the duration."""
    side = SIDES[id(M)]
    old = {n: sys.modules.get(n) for n in side}
    sys.modules.update(side)
    try:
        return pickle.loads(pickle.dumps(obj))
    finally:
        for n, m in old.items():
            if m is None:
                sys.modules.pop(n, None)
            else:
                sys.modules[n] = m


def drive(gen: Any, script: list) -> list:
    """Drive a generator with a script of ('next',) / ('send', v) / ('throw', exc) / ('close',) steps and
    record what each step produced."""
    log: list = StepLog()
    for step in script:
        op = step[0]
        try:
            if op == "next":
                r = next(gen)
            elif op == "send":
                r = gen.send(step[1])
            elif op == "throw":
                r = gen.throw(step[1])
            else:
                r = gen.close()
            log.append([op, "->", _flat(canon(r))])
        except StopIteration as e:
            log.append([op, "stop", _flat(canon(e.value))])
        except BaseException as e:  # noqa: BLE001
            if isinstance(e, KeyboardInterrupt):
                raise
            a = e.args
            mark = a and isinstance(a[0], str) and a[0].startswith(PROGRAM_MARK)
            log.append([op, "raises", type(e).__qualname__, _flat(canon(a)) if mark else None])
    return log


def apply_seq(obj: Any, steps: list) -> list:
    """Apply a sequence of ('get', attr) / ('set', attr, v) / ('del', attr) / ('call', meth, args) / ('has', attr)
    steps to an object from the interpreter and record every outcome."""
    log = StepLog()
    log.positional = False
    for step in steps:
        op = step[0]
        try:
            if op == "get":
                r: Any = getattr(obj, step[1])
            elif op == "set":
                setattr(obj, step[1], step[2])
                r = None
            elif op == "del":
                delattr(obj, step[1])
                r = None
            elif op == "has":
                r = hasattr(obj, step[1])
            else:
                r = getattr(obj, step[1])(*step[2])
            log.append([op, step[1], "->", _flat(canon(r))])
        except BaseException as e:  # noqa: BLE001
            if isinstance(e, KeyboardInterrupt):
                raise
            a = e.args
            mark = a and isinstance(a[0], str) and a[0].startswith(PROGRAM_MARK)
            log.append([op, step[1], "raises", type(e).__qualname__, _flat(canon(a)) if mark else None])
    return log


HELPERS: dict[str, Any] = {"Box": Box, "drive": drive, "apply_seq": apply_seq, "after": after, "pickled": pickled,
                           "copy": copy, "nan": float("nan"),
                           "inf": float("inf"), "__builtins__": __builtins__}


# --------------------------------------------------------------------------- loading


def load_modules(build_dir: str, ref_dir: str, modnames: list[str]) -> tuple[dict, dict]:
    """Import every module twice under the same name: compiled (.so in build_dir) and interpreted (.py in
    ref_dir).  Afterwards sys.modules holds the compiled ones."""
    for m in modnames:
        assert m not in sys.modules, m
    sys.path.insert(0, ref_dir)
    ref = {}
    try:
        for m in modnames:
            ref[m] = importlib.import_module(m)
            f = ref[m].__file__ or ""
            assert f.endswith(".py") and os.path.dirname(f) == ref_dir, f
    finally:
        sys.path.remove(ref_dir)
        for m in modnames:
            sys.modules.pop(m, None)
    importlib.invalidate_caches()
    sys.path.insert(0, build_dir)
    comp = {}
    for m in modnames:
        comp[m] = importlib.import_module(m)
        f = comp[m].__file__ or ""
        assert f.endswith(".so") and os.path.dirname(f) == build_dir, f
    for side in (comp, ref):
        for m in side.values():
            SIDES[id(m)] = side
    return comp, ref


# --------------------------------------------------------------------------- driver


def unit_cases(unit: dict) -> list[tuple]:
    """[(tuple of setup exprs, call expr, alias, target expr or None)] in enumeration order (simplest first
    by construction).  For call-shape units the call is `F(<actuals>)` and F is bound to the target."""
    doms = unit.get("doms") or []
    out: list[tuple] = []
    tuples = list(itertools.product(*doms)) if doms else [()]
    for call in unit["calls"]:
        for tup in tuples:
            out.append((tup, call, False, None))
    if unit.get("shapes"):
        from mc.c05_gen import shape_calls

        for call, target in shape_calls(unit["shapes"]):
            out.append(((), call, False, target))
    if unit.get("alias") and len(doms) >= 2:
        rest = list(itertools.product(*doms[2:])) if len(doms) > 2 else [()]
        for call in unit["calls"]:
            for x in doms[0]:
                for r in rest:
                    out.append(((x, x) + r, call, True, None))
    return out


def n_cases(unit: dict) -> int:
    if unit.get("shapes"):
        return len(unit_cases(unit))
    n = 1
    for d in unit.get("doms") or []:
        n *= len(d)
    tot = n * len(unit["calls"])
    if unit.get("alias") and len(unit.get("doms") or []) >= 2:
        k = len(unit["doms"][0])
        for d in unit["doms"][2:]:
            k *= len(d)
        tot += k * len(unit["calls"])
    return tot


_codes: dict[str, Any] = {}


def _code(src: str) -> Any:
    c = _codes.get(src)
    if c is None:
        c = _codes[src] = compile(src, "<case>", "eval")
    return c


def run_job(job: dict) -> dict:
    modnames = job["modules"]
    comp, ref = load_modules(job["build_dir"], job["ref_dir"], modnames)
    mods = tuple(modnames)
    pfd = os.open(job["progress"], os.O_WRONLY | os.O_CREAT, 0o600)
    trace = job.get("trace", False)
    cap = job.get("max_mismatches", 6)
    only = job.get("only")  # {unit name: [case indices]} for replay
    res: dict[str, Any] = {}
    for unit in job["units"]:
        name = unit["name"]
        os.pwrite(pfd, (name + " -1").ljust(160).encode(), 0)
        Mc, Mr = comp[unit["module"]], ref[unit["module"]]
        cs = unit_cases(unit)
        idxs = range(len(cs)) if only is None or name not in only or only[name] is None else only[name]
        n = nexc = nmut = nout = msgdiff = 0
        kinds: set = set()
        bad: dict[str, dict] = {}
        nbad = 0
        msg_samples: list = []
        sample = None
        for i in idxs:
            tup, call, alias, target = cs[i]
            if trace:
                os.pwrite(pfd, f"{name} {i}".ljust(160).encode(), 0)
            setup = [_code(s) for s in tup]
            cc = _code(call)
            tc = _code(target) if target is not None else None
            r = observe(Mr, setup, cc, alias, mods, tc)
            g = observe(Mc, setup, cc, alias, mods, tc)
            if target is not None:
                call = target + call[1:]
            n += 1
            kind = compare(r, g)
            if r[0][0] == "exc":
                nexc += 1
                kinds.add(r[0][1])
            elif r[0][0] == "val":
                kinds.add("value:" + str(r[0][1][0]))
            if r[1]:
                nout += 1
            # did the call change an object passed in?  (compare with a fresh evaluation of the setup)
            if tup and r[2] != [canon(eval(c, HELPERS)) for c in setup]:
                nmut += 1
            if kind is not None:
                nbad += 1
                cause = cause_key(unit, kind, call, r, g)
                b = bad.get(cause)
                if b is None:
                    if len(bad) < cap:
                        bad[cause] = {"kind": kind, "cause": cause, "case": i, "args": list(tup), "call": call,
                                      "alias": alias, "reference": show(r), "compiled": show(g), "count": 1,
                                      "ref_state": _short(r[2]), "comp_state": _short(g[2])}
                else:
                    b["count"] += 1
            elif r[0][0] == "exc" and r[3] != g[3]:
                msgdiff += 1
                if len(msg_samples) < 2:
                    msg_samples.append({"args": list(tup), "call": call, "type": r[0][1], "interpreted": r[3],
                                        "compiled": g[3]})
            if sample is None and (r[0][0] == "exc" or nmut):
                sample = {"unit": name, "args": list(tup), "call": call, "interpreted": show(r), "compiled": show(g)}
        res[name] = {"n": n, "exceptions": nexc, "mutations": nmut, "stdout": nout, "bad": nbad,
                     "mismatches": list(bad.values()), "message_only": msgdiff, "message_samples": msg_samples,
                     "outcomes": sorted(kinds), "sample": sample}
    os.pwrite(pfd, "DONE -1".ljust(160).encode(), 0)
    os.close(pfd)
    return res


def main() -> None:
    with open(sys.argv[1]) as f:
        job = json.load(f)
    sys.setrecursionlimit(400)
    res = run_job(job)
    with open(job["out"] + ".tmp", "w") as f:
        json.dump(res, f)
    os.replace(job["out"] + ".tmp", job["out"])


if __name__ == "__main__":
    main()
