"""C06 model: explicit-state search of one FuncIR's CFG over abstract ownership states.

Independent of mypyc/transform/refcount.py: no liveness/borrow/must-defined analysis of the transform is
consulted.  Everything is read off the op objects of the function being checked:

  op.sources(), op.stolen(), op.is_borrowed, op.error_kind, Branch.op/negated/targets, IncRef/DecRef(.is_xdec),
  Return(.yield_target), Unreachable, Assign/AssignMulti, LoadErrorValue, Unborrow, KeepAlive(.steal),
  LoadMem/SetMem, LoadAddress, CallC.returns_null, GetAttr.allow_error_value, fn.arg_regs.

Abstract value of every tracked Value (all Registers + every Op whose result type is ref-counted):

    d in {UNDEF, NULL, OK}      never assigned on this path / the error value / a real reference
    n in {0..cap}               references this *name* owns (cap = saturation bound, see below)
    b in {False, True}          "base valid": usable without owning it (argument held by the caller, immortal
                                literal/static, or borrowed from a lender that is still valid)

The search is path-based: an op whose result may be the error value yields two successor states, and a
`Branch.IS_ERROR` on a tracked value is then *deterministic* in the state (this is what makes the
"never touch the refcount of a value known to be NULL" convention checkable without any dataflow).
`Branch.BOOL` is nondeterministic (both successors).  States are deduplicated at block entry on
(block, sigma restricted to values my own trivial use-liveness says can still be read, plus everything
still owned), so loops terminate.

Constructs described explicitly (each one was a false alarm of the generic rules in the design spike or
during calibration; they are model corrections, not allow-lists -- see `CORRECTIONS`).
"""

from __future__ import annotations

from collections import deque
from typing import Any

from mypyc.ir.func_ir import FuncIR
from mypyc.ir.ops import (
    ERR_MAGIC_OVERLAPPING,
    Assign,
    AssignMulti,
    Box,
    Branch,
    CallC,
    Cast,
    ComparisonOp,
    ControlOp,
    DecRef,
    GetAttr,
    GetElement,
    Goto,
    IncRef,
    Integer,
    KeepAlive,
    LoadAddress,
    LoadErrorValue,
    LoadLiteral,
    LoadMem,
    MethodCall,
    Op,
    Register,
    RegisterOp,
    Return,
    SetAttr,
    SetMem,
    TupleGet,
    TupleSet,
    Unborrow,
    Unbox,
    Unreachable,
    Value,
)

UNDEF, NULL, OK = 0, 1, 2

CORRECTIONS = [
    "explicit <error> value (LoadErrorValue / Integer 0 of pointer type) is NULL, may be passed to calls, assigned, "
    "returned and x-decref'd; only inc_ref/dec_ref/attribute access/box/unbox/cast of NULL is a null dereference",
    "Unborrow / KeepAlive(steal): the single owned reference of the aggregate moves to its borrowed items "
    "(first Unborrow or stealing KeepAlive consumes the aggregate without invalidating its borrowed items)",
    "uninit pattern: y = <error> ... if is_error(y) ... xdec_ref y: IS_ERROR is decided by the path's state of y, "
    "xdec_ref of NULL is a no-op",
    "raw item replacement: r = borrow load_mem p; dec_ref r; set_mem p, new -- the dec_ref releases the reference "
    "held by the memory slot; the slot must be overwritten by set_mem of the same pointer before return",
    "registers whose address is taken (LoadAddress) are written by the callee: not tracked",
    "overlapping error values (ERR_MAGIC_OVERLAPPING on a ref-counted tuple): the comparison / PyErr_Occurred "
    "sequence inserted by exceptions.py is correlated with the state of the call result",
    "a Return created by a yield, before insert_spills has run (stage 'refcount'): values live across the yield "
    "are still held in temporaries; the leak check at such a Return and the undefined-read check of temporaries "
    "after the resume dispatch apply only to the final stage",
    "an ERR_MAGIC result that no Branch.IS_ERROR tests (reads of spilled temporaries inserted by insert_spills) is "
    "non-NULL, as the compiler assumes; nullable results are exactly those the function tests or declares",
    "borrowed results of C calls are not tied to the lifetime of the call's arguments (only interior references "
    "GetAttr/TupleGet/Cast/GetElement with borrow are)",
    "flag registers: a literal 0/1 stored in a non-ref-counted register decides a later Branch.BOOL on that "
    "register (irbuild correlates such flags with the definedness of unnamed temporaries, e.g. async for)",
]


def _code(d: int, n: int, b: bool) -> int:
    return d | (4 if b else 0) | (n << 3)


C_UNDEF = _code(UNDEF, 0, False)
C_NULL = _code(NULL, 0, False)
C_OWNED1 = _code(OK, 1, False)
C_BORROWED = _code(OK, 0, True)
C_DEAD = _code(OK, 0, False)


class FnChecker:
    def __init__(self, fn: FuncIR, stage: str, max_states: int = 400000) -> None:
        self.fn = fn
        self.stage = stage
        self.max_states = max_states
        self.blocks = fn.blocks
        self.bidx = {b: i for i, b in enumerate(self.blocks)}
        self.violations: dict[tuple, dict] = {}
        self.states = 0
        self.transitions = 0
        self.entry_states = 0
        self.capped = False
        self.paths_ended = {"return": 0, "error_return": 0, "unreachable": 0, "yield": 0}
        self._collect()

    # ------------------------------------------------------------------ static facts (from op objects only)

    def _collect(self) -> None:
        fn = self.fn
        vals: list[Value] = []
        seen: set[Value] = set()

        def add(v: Value) -> None:
            if v not in seen:
                seen.add(v)
                vals.append(v)

        self.escaped: set[Value] = set()
        self.is_error_tested: set[Value] = set()
        self.assign_multi_src: dict[Value, list[Value]] = {}
        self.steal_kinds: dict[str, int] = {}
        self.multi_steal_ops = 0
        max_mult = 1
        for a in fn.arg_regs:
            add(a)
        for b in self.blocks:
            for op in b.ops:
                for s in op.sources():
                    if isinstance(s, Register):
                        add(s)
                if isinstance(op, (Assign, AssignMulti)):
                    add(op.dest)
                    if isinstance(op, AssignMulti):
                        self.assign_multi_src[op.dest] = list(op.src)
                elif isinstance(op, LoadAddress) and isinstance(op.src, Register):
                    self.escaped.add(op.src)
                    add(op.src)
                if isinstance(op, Branch) and op.op == Branch.IS_ERROR:
                    self.is_error_tested.add(op.value)
                if not op.is_void and not isinstance(op, ControlOp) and op.type.is_refcounted:
                    add(op)
                st = op.stolen()
                for s in st:
                    max_mult = max(max_mult, st.count(s))
                if any(s.type.is_refcounted for s in st):
                    kind = self.opname(op)
                    if type(op).__name__ == "PrimitiveOp":
                        kind += ":" + str(getattr(getattr(op, "desc", None), "name", "?"))
                    self.steal_kinds[kind] = self.steal_kinds.get(kind, 0) + 1
                    if any(st.count(s) > 1 and s.type.is_refcounted for s in st):
                        self.multi_steal_ops += 1
        self.pre_spill_generator = self.stage == "refcount" and any(
            isinstance(b.ops[-1], Return) and b.ops[-1].yield_target is not None for b in self.blocks)
        self.vals = vals
        self.idx: dict[Value, int] = {v: i for i, v in enumerate(vals) if v not in self.escaped}
        self.refc = [v.type.is_refcounted for v in vals]
        self.cap = max(6, max_mult + 3)
        # lenders of borrowed op results: the ref-counted tracked sources they were derived from
        self.lenders: dict[int, list[int]] = {}
        self.borrowers: dict[int, list[int]] = {}
        for b in self.blocks:
            for op in b.ops:
                if (isinstance(op, (GetAttr, TupleGet, Cast, GetElement, Unborrow)) and op in self.idx
                        and (op.is_borrowed or isinstance(op, Unborrow))):
                    # interior references: valid only while the aggregate they point into is.  Borrowed results
                    # of C calls are NOT tied to their arguments (contract of the C function, trusted).
                    ls = [self.idx[s] for s in op.unique_sources() if s in self.idx and s.type.is_refcounted]
                    if ls:
                        self.lenders[self.idx[op]] = ls
                        if not isinstance(op, Unborrow):
                            for l in ls:
                                self.borrowers.setdefault(l, []).append(self.idx[op])
        # overlapping-error pattern: ComparisonOp over a TupleGet chain rooted at an ERR_MAGIC_OVERLAPPING result
        self.overlap_cmp: dict[Value, int] = {}
        for b in self.blocks:
            for op in b.ops:
                if isinstance(op, ComparisonOp) and op.op == ComparisonOp.EQ:
                    root: Value = op.lhs
                    while isinstance(root, TupleGet):
                        root = root.src
                    if (isinstance(root, RegisterOp) and root.error_kind == ERR_MAGIC_OVERLAPPING and root in self.idx
                            and root.type.is_refcounted and root is not op.lhs):
                        self.overlap_cmp[op] = self.idx[root]
        self._liveness()

    def may_be_null(self, op: Op) -> bool:
        """Can the result be the error value?  Yes iff the function itself tests it with Branch.IS_ERROR (after
        insert_exception_handling that is every op that can raise), or the op declares a NULL result that is not
        an error.  An ERR_MAGIC result that no branch tests (reads of spilled temporaries inserted by
        insert_spills after the exception transform) is assumed non-NULL, as the compiler assumes."""
        if isinstance(op, LoadErrorValue):
            return False  # always NULL, handled separately
        if isinstance(op, CallC) and op.returns_null:
            return True
        if isinstance(op, GetAttr) and op.allow_error_value:
            return True
        if isinstance(op, (LoadLiteral, LoadAddress, Box, TupleSet)):
            return False  # cannot produce the error value even if (after copy propagation) a branch tests them
        return op in self.is_error_tested

    def _uses(self, op: Op) -> list[int]:
        out = [self.idx[s] for s in op.sources() if s in self.idx]
        if isinstance(op, Unborrow) and op.src in self.idx:
            out += self.lenders.get(self.idx[op.src], [])
        return out

    def _liveness(self) -> None:
        """Trivial backward use-liveness (mine, not the transform's) -- only used to canonicalise state keys."""
        nb = len(self.blocks)
        use: list[set[int]] = []
        defs: list[set[int]] = []
        succ: list[list[int]] = []
        for b in self.blocks:
            u: set[int] = set()
            d: set[int] = set()
            for op in b.ops:
                for i in self._uses(op):
                    if i not in d:
                        u.add(i)
                if isinstance(op, (Assign, AssignMulti)):
                    if op.dest in self.idx:
                        d.add(self.idx[op.dest])
                elif op in self.idx:
                    d.add(self.idx[op])
            use.append(u)
            defs.append(d)
            succ.append([self.bidx[t] for t in b.ops[-1].targets()] if isinstance(b.ops[-1], ControlOp) else [])
        live_in: list[set[int]] = [set() for _ in range(nb)]
        changed = True
        while changed:
            changed = False
            for i in range(nb - 1, -1, -1):
                out: set[int] = set()
                for s in succ[i]:
                    out |= live_in[s]
                new = use[i] | (out - defs[i])
                if new != live_in[i]:
                    live_in[i] = new
                    changed = True
        # borrowers stay meaningful only while read later; lenders need no liveness (events happen at their ops)
        self.live_in = live_in

    # ------------------------------------------------------------------ violations

    def describe(self, v: Value) -> str:
        if isinstance(v, Register):
            return "arg" if v.is_arg else "register"
        name = type(v).__name__
        if isinstance(v, CallC):
            return f"CallC:{v.function_name}"
        if isinstance(v, (GetAttr, TupleGet, Cast, LoadMem)) and v.is_borrowed:
            return name + ":borrow"
        return name

    def opname(self, op: Op) -> str:
        if isinstance(op, CallC):
            return f"CallC:{op.function_name}"
        if isinstance(op, DecRef):
            return "XDecRef" if op.is_xdec else "DecRef"
        return type(op).__name__

    def flag(self, kind: str, op: Op, v: Value | None, pos: tuple[int, int], key: Any) -> None:
        k = (kind, pos, self.idx.get(v, -1) if v is not None else -1)
        if k in self.violations:
            return
        self.violations[k] = {
            "kind": kind,
            "at": self.opname(op),
            "value": self.describe(v) if v is not None else "",
            "block": pos[0],
            "op_index": pos[1],
            "value_index": k[2],
            "entry_key": key,
        }

    # ------------------------------------------------------------------ state helpers

    def _invalidate(self, s: list[int], i: int) -> None:
        """Value i just became unusable (released, not base-valid): its borrowers lose their base."""
        stack = [i]
        while stack:
            j = stack.pop()
            for w in self.borrowers.get(j, ()):
                c = s[w]
                if c & 4:
                    s[w] = c & ~4
                    if (c >> 3) == 0:
                        stack.append(w)

    def _release(self, s: list[int], i: int, invalidate: bool = True) -> None:
        c = s[i]
        n = (c >> 3) - 1
        s[i] = (c & 7) | (n << 3)
        if n == 0 and not (c & 4) and invalidate:
            self._invalidate(s, i)

    # ------------------------------------------------------------------ transfer

    def _null_position(self, op: Op, v: Value) -> bool:
        """Is `v` used by `op` in a position that dereferences it?"""
        if isinstance(op, (IncRef, DecRef, Box, Unbox, Cast, Unborrow)):
            return True
        if isinstance(op, (GetAttr, MethodCall)):
            return op.obj is v
        if isinstance(op, SetAttr):
            return op.obj is v
        return False

    def step(self, op: Op, s: list[int], ex: frozenset, pos: tuple[int, int], key: Any) -> list[tuple[list[int], frozenset]]:
        """Apply a non-control op; returns successor (sigma, extras) list."""
        idx = self.idx
        # ---- reads
        is_x = isinstance(op, DecRef) and op.is_xdec
        for v in op.unique_sources():
            i = idx.get(v)
            if i is None:
                continue
            c = s[i]
            d = c & 3
            if d == UNDEF:
                if not (self.pre_spill_generator and not isinstance(v, Register)):
                    self.flag("undefined-read", op, v, pos, key)
            elif not self.refc[i]:
                continue
            elif d == NULL:
                if not is_x and self._null_position(op, v):
                    self.flag("null-deref", op, v, pos, key)
                elif isinstance(op, SetAttr) and op.src is v and isinstance(v, Register):
                    # storing a register that holds the error value on this path (not an explicit <error> op, not
                    # a result stored before its own error check): the attribute silently becomes undefined
                    self.flag("null-store", op, v, pos, key)
            elif (c >> 3) == 0 and not (c & 4):
                if isinstance(op, DecRef):
                    continue  # reported as over-release below
                if ("x", i) in ex and isinstance(op, TupleGet) and op.is_borrowed:
                    continue  # items of an exploded aggregate are still reachable through its (C struct) storage
                self.flag("use-after-release", op, v, pos, key)

        if isinstance(op, IncRef):
            i = idx.get(op.src)
            if i is not None and (s[i] & 3) == OK:
                n = s[i] >> 3
                if n >= self.cap:
                    self.flag("saturation", op, op.src, pos, key)
                else:
                    s[i] = (s[i] & 7) | ((n + 1) << 3)
            return [(s, ex)]

        if isinstance(op, DecRef):
            i = idx.get(op.src)
            if i is not None and (s[i] & 3) == OK:
                c = s[i]
                if (c >> 3) > 0:
                    self._release(s, i)
                elif (c & 4) and isinstance(op.src, LoadMem) and op.src.is_borrowed:
                    # raw item replacement: the slot's reference is released; slot must be overwritten
                    s[i] = c & ~4
                    ex = ex | {("slot", id(op.src.src))}
                else:
                    self.flag("over-release", op, op.src, pos, key)
            return [(s, ex)]

        if isinstance(op, KeepAlive):
            if op.steal:
                for v in op.src:
                    i = idx.get(v)
                    if i is None or not self.refc[i] or (s[i] & 3) != OK:
                        continue
                    if ("x", i) in ex:
                        continue
                    if (s[i] >> 3) > 0:
                        self._release(s, i, invalidate=False)
                        ex = ex | {("x", i)}
                    else:
                        self.flag("over-release", op, v, pos, key)
            return [(s, ex)]

        if isinstance(op, Unborrow):
            r = idx.get(op)
            if r is None:
                return [(s, ex)]  # not ref-counted: nothing moves
            src_i = idx.get(op.src)
            ls = self.lenders.get(src_i, []) if src_i is not None else []
            if len(ls) == 1:
                L = ls[0]
                if ("x", L) not in ex:
                    if (s[L] & 3) == OK and (s[L] >> 3) > 0:
                        self._release(s, L, invalidate=False)
                        ex = ex | {("x", L)}
                    else:
                        self.flag("over-release", op, self.vals[L], pos, key)
            else:
                self.flag("over-release", op, op.src, pos, key)
            if r is not None:
                if (s[r] >> 3) > 0:
                    self.flag("leak-overwritten", op, op, pos, key)
                s[r] = C_OWNED1 if self.refc[r] else C_BORROWED
            return [(s, ex)]

        if isinstance(op, Assign) and idx.get(op.src, -1) == idx.get(op.dest, -2):
            return [(s, ex)]  # x = x

        # ---- steals (generic: declared by the op)
        if True:
            taken: set[int] = set()
            for v in op.stolen():
                i = idx.get(v)
                if i is None or not self.refc[i]:
                    continue
                c = s[i]
                if (c & 3) != OK:
                    continue
                if (c >> 3) > 0:
                    self._release(s, i)
                    taken.add(i)
                elif c & 4:
                    self.flag("steal-of-borrowed", op, v, pos, key)
                elif i in taken:
                    # the same value in several stolen operand positions: every position takes a reference of its own
                    self.flag("over-release", op, v, pos, key)
                # else: already reported as use-after-release

        if isinstance(op, SetMem):
            tag = ("slot", id(op.dest))
            if tag in ex:
                ex = ex - {tag}
            return [(s, ex)]

        if isinstance(op, Assign):
            di = idx.get(op.dest)
            if di is None:
                return [(s, ex)]
            if not self.refc[di]:
                # flag registers: remember a literal 0/1 so that a later `if flag` is decided by the path
                if isinstance(op.src, Integer) and op.src.value in (0, 1):
                    s[di] = C_BORROWED | ((op.src.value + 1) << 3)
                else:
                    s[di] = C_BORROWED
                return [(s, ex)]
            old = s[di]
            si = idx.get(op.src)
            if (old >> 3) > 0:
                self.flag("leak-overwritten", op, op.dest, pos, key)
            if ("x", di) in ex:
                ex = ex - {("x", di)}
            src = op.src
            if si is not None and self.refc[si]:
                d = s[si] & 3
                s[di] = C_OWNED1 if d == OK else _code(d, 0, False)
            elif isinstance(src, LoadErrorValue) or (isinstance(src, Integer) and src.value == 0 and not src.type.is_unboxed):
                s[di] = C_NULL
            else:
                # a non-ref-counted / literal source stored into a ref-counted register (short int into int, ...):
                # the register is an ordinary owned reference from now on
                s[di] = C_OWNED1
            return [(s, ex)]

        if isinstance(op, AssignMulti):
            di = idx.get(op.dest)
            if di is not None:
                s[di] = C_BORROWED
            return [(s, ex)]

        # ---- results
        r = idx.get(op)
        if r is None:
            return [(s, ex)]
        if (s[r] >> 3) > 0:
            self.flag("leak-overwritten", op, op, pos, key)
        if ("x", r) in ex:
            ex = ex - {("x", r)}
        if isinstance(op, LoadErrorValue):
            s[r] = C_NULL
            return [(s, ex)]
        if op.is_borrowed:
            valid = True
            for L in self.lenders.get(r, ()):
                c = s[L]
                if (c & 3) != OK or ((c >> 3) == 0 and not (c & 4)):
                    valid = False
            okc = _code(OK, 0, valid)
        else:
            okc = C_OWNED1
        if isinstance(op, CallC) and op.function_name == "PyErr_Occurred" and not op.args:
            pend = [t for t in ex if t[0] == "ovl"]
            if pend:
                ex = ex - set(pend)
                s[r] = okc if pend[0][1] else C_NULL
                return [(s, ex)]
            s2 = list(s)
            s[r] = okc
            s2[r] = C_NULL
            return [(s, ex), (s2, ex)]
        if self.may_be_null(op):
            s2 = list(s)
            s[r] = okc
            s2[r] = C_NULL
            return [(s, ex), (s2, ex)]
        s[r] = okc
        return [(s, ex)]

    # ------------------------------------------------------------------ search

    def key_of(self, bi: int, s: list[int], ex: frozenset) -> tuple:
        live = self.live_in[bi]
        out = []
        for i, c in enumerate(s):
            if i in live or ((c >> 3) > 0 and self.refc[i]):
                out.append(c)
            else:
                out.append(0)
        if ex:
            ex = frozenset(t for t in ex if t[0] != "x" or t[1] in live or (s[t[1]] >> 3) > 0)
        return (bi, tuple(out), ex)

    def initial_states(self) -> list[list[int]]:
        n = len(self.vals)
        base = [C_UNDEF] * n
        optional: list[int] = []
        for a in self.fn.arg_regs:
            i = self.idx.get(a)
            if i is None:
                continue
            base[i] = C_BORROWED
            if self.refc[i] and a in self.is_error_tested:
                optional.append(i)
        states = [base]
        if len(optional) <= 4:
            for i in optional:
                nxt = []
                for st in states:
                    alt = list(st)
                    alt[i] = C_NULL
                    nxt.append(alt)
                states += nxt
            self.arg_null_combos_capped = False
        else:
            alln = list(base)
            for i in optional:
                alln[i] = C_NULL
                one = list(base)
                one[i] = C_NULL
                states.append(one)
            states.append(alln)
            self.arg_null_combos_capped = True
        return states

    def run(self) -> None:
        seen: set[tuple] = set()
        self.parent: dict[tuple, tuple | None] = {}
        work: deque = deque()
        for st in self.initial_states():
            k = self.key_of(0, st, frozenset())
            if k not in seen:
                seen.add(k)
                self.parent[k] = None
                work.append((0, st, frozenset(), k))
        while work:
            if self.states > self.max_states:
                self.capped = True
                break
            bi, s0, ex0, key = work.popleft()
            self.entry_states += 1
            cur: list[tuple[list[int], frozenset]] = [(list(s0), ex0)]
            ops = self.blocks[bi].ops
            for oi, op in enumerate(ops):
                pos = (bi, oi)
                if isinstance(op, ControlOp):
                    for s, ex in cur:
                        self.states += 1
                        for tb, s2, ex2 in self.control(op, s, ex, pos, key):
                            self.transitions += 1
                            k2 = self.key_of(tb, s2, ex2)
                            if k2 not in seen:
                                seen.add(k2)
                                self.parent[k2] = key
                                work.append((tb, s2, ex2, k2))
                    break
                nxt: list[tuple[list[int], frozenset]] = []
                for s, ex in cur:
                    self.states += 1
                    res = self.step(op, s, ex, pos, key)
                    self.transitions += len(res)
                    nxt.extend(res)
                if len(nxt) > 1:
                    uniq = {}
                    for s, ex in nxt:
                        uniq.setdefault((tuple(s), ex), (s, ex))
                    nxt = list(uniq.values())
                cur = nxt

    def control(self, op: ControlOp, s: list[int], ex: frozenset, pos: tuple[int, int], key: Any):
        idx = self.idx
        if isinstance(op, Goto):
            return [(self.bidx[op.label], s, ex)]
        if isinstance(op, Unreachable):
            self.paths_ended["unreachable"] += 1
            return []
        if isinstance(op, Branch):
            v = op.value
            i = idx.get(v)
            conds: list[bool]
            if i is not None and (s[i] & 3) == UNDEF and not (self.pre_spill_generator and not isinstance(v, Register)):
                self.flag("undefined-read", op, v, pos, key)
            if op.op == Branch.IS_ERROR:
                if i is not None and self.refc[i] and (s[i] & 3) != UNDEF:
                    conds = [(s[i] & 3) == NULL]
                elif isinstance(v, Integer) and not v.type.is_unboxed:
                    conds = [v.value == 0]
                else:
                    conds = [True, False]
            else:
                if isinstance(v, Integer):
                    conds = [v.value != 0]
                elif i is not None and not self.refc[i] and (s[i] >> 3) > 0:
                    conds = [(s[i] >> 3) == 2]
                elif v in self.overlap_cmp:
                    root = self.overlap_cmp[v]
                    out = []
                    t_true = self.bidx[op.false if op.negated else op.true]
                    t_false = self.bidx[op.true if op.negated else op.false]
                    if (s[root] & 3) == NULL:
                        out.append((t_true, s, ex | {("ovl", 1)}))
                    else:
                        out.append((t_false, s, ex))
                        out.append((t_true, list(s), ex | {("ovl", 0)}))
                    return out
                else:
                    if i is not None and self.refc[i]:
                        c = s[i]
                        if (c & 3) == OK and (c >> 3) == 0 and not (c & 4):
                            self.flag("use-after-release", op, v, pos, key)
                    conds = [True, False]
            out = []
            for n_, cond in enumerate(conds):
                taken = cond != op.negated
                out.append((self.bidx[op.true if taken else op.false], s if n_ == len(conds) - 1 else list(s), ex))
            return out
        if isinstance(op, Return):
            v = op.value
            i = idx.get(v)
            is_err = False
            if i is not None:
                c = s[i]
                d = c & 3
                if d == UNDEF:
                    if not (self.pre_spill_generator and not isinstance(v, Register)):
                        self.flag("undefined-read", op, v, pos, key)
                elif self.refc[i]:
                    if d == NULL:
                        is_err = True
                    elif (c >> 3) > 0:
                        self._release(s, i, invalidate=False)
                    elif c & 4:
                        self.flag("return-of-borrowed", op, v, pos, key)
                    else:
                        self.flag("use-after-release", op, v, pos, key)
            elif isinstance(v, LoadErrorValue) or (isinstance(v, Integer) and v.value == 0 and not v.type.is_unboxed):
                is_err = True
            is_yield = op.yield_target is not None
            if is_yield:
                self.paths_ended["yield"] += 1
            elif is_err:
                self.paths_ended["error_return"] += 1
            else:
                self.paths_ended["return"] += 1
            if not (is_yield and self.stage == "refcount"):
                for j, c in enumerate(s):
                    if (c >> 3) > 0 and self.refc[j]:
                        self.flag("leak-at-error-return" if is_err else "leak-at-return", op, self.vals[j], pos, key)
                for t in ex:
                    if t[0] == "slot":
                        self.flag("slot-released-not-overwritten", op, None, pos, key)
            return []
        raise AssertionError(f"unknown control op {op}")

    # ------------------------------------------------------------------ reporting

    def path_to(self, key: tuple) -> list[int]:
        out = []
        k: tuple | None = key
        while k is not None and len(out) < 200:
            out.append(k[0])
            k = self.parent.get(k)
        return out[::-1]


def malformed(fn: FuncIR) -> bool:
    """A control op that targets a block which is not part of the function (cannot be compiled to C at all)."""
    ids = {id(b) for b in fn.blocks}
    for b in fn.blocks:
        if not b.ops or not isinstance(b.ops[-1], ControlOp):
            return True
        for t in b.ops[-1].targets():
            if id(t) not in ids:
                return True
    return False


def check_function(fn: FuncIR, stage: str, max_states: int = 400000) -> dict:
    if malformed(fn):
        return {"states": 0, "transitions": 0, "entry_states": 0, "capped": False, "blocks": len(fn.blocks),
                "ops": sum(len(b.ops) for b in fn.blocks), "tracked": 0, "escaped": 0,
                "ends": {"return": 0, "error_return": 0, "unreachable": 0, "yield": 0}, "arg_null_combos_capped": False,
                "n_increfs": 0, "n_decrefs": 0, "violations": [], "malformed": True, "steal_kinds": {}, "multi_steal_ops": 0}
    ck = FnChecker(fn, stage, max_states)
    ck.run()
    viols = []
    for v in ck.violations.values():
        v = dict(v)
        v["path_blocks"] = ck.path_to(v.pop("entry_key"))
        viols.append(v)
    return {
        "states": ck.states,
        "transitions": ck.transitions,
        "entry_states": ck.entry_states,
        "capped": ck.capped,
        "blocks": len(fn.blocks),
        "ops": sum(len(b.ops) for b in fn.blocks),
        "tracked": len(ck.idx),
        "escaped": len(ck.escaped),
        "ends": ck.paths_ended,
        "arg_null_combos_capped": getattr(ck, "arg_null_combos_capped", False),
        "n_increfs": sum(isinstance(o, IncRef) for b in fn.blocks for o in b.ops),
        "n_decrefs": sum(isinstance(o, DecRef) for b in fn.blocks for o in b.ops),
        "violations": viols,
        "malformed": False,
        "steal_kinds": ck.steal_kinds,
        "multi_steal_ops": ck.multi_steal_ops,
    }
