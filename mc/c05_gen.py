"""C05 helper: program generators (families a-e) and module packing.

Every generator returns *units* (see mc/c05_driver.py): a piece of source (one or more top-level
definitions) plus the cases that exercise it.  Units are packed into modules; each module is compiled by
mypyc and imported by the interpreter from the same source text.

Family (a) is generated from `mypyc.primitives.registry` by introspection: a primitive added to the
registry yields new candidate functions automatically.  Candidates that mypy itself rejects (the generic
recipe does not fit every primitive) are dropped by the type-check filter of mc/c05_build.py and
reported as `candidates_rejected_by_mypy`; the registry entries never reached are listed in the evidence.
"""

from __future__ import annotations

import importlib.util
import itertools
from typing import Any

HEADER = """\
from typing import (Any, Callable, Dict, FrozenSet, Generator, Iterable, Iterator, List, Optional, Set,
                    Tuple, Union)
from mypy_extensions import i64, i32, i16, u8, trait
"""

# --------------------------------------------------------------------------- value domains (expressions)

INTS = ["0", "1", "-1", "2", "-3", "7", "64", "2**62-1", "2**62", "-2**62", "-2**62-1", "2**63", "2**64+1"]
INTS_Q = ["0", "1", "-1", "3", "-4", "2**62", "-2**62-1", "2**64+1"]
COUNTS = ["0", "1", "-1", "2", "3", "2**62", "2**64"]  # repeat counts / shift counts (never 2**20..2**61)
EXPONENTS = ["0", "1", "-1", "2", "3", "-2", "64"]
FLOATS = ["0.0", "-0.0", "1.0", "1.5", "-2.5", "1e308", "5e-324", "inf", "-inf", "nan", "float(2**62)"]
STRS = ["''", "'a'", "'ab c'", "'\\xe9\\u4e2d\\U0001f600'", "' a '", "'12'", "'aXbXa'"]
BYTES = ["b''", "b'a'", "b'ab c'", "b'\\xff\\x00'", "b'12'"]
BYTEARRAYS = ["bytearray(b'')", "bytearray(b'ab')"]
LISTS = ["[]", "[1]", "[1, 2, 3]", "[3, 'a', 1]", "['b', 'a', 'b']", "[2**64, (1, 2)]"]
DICTS = ["{}", "{'a': 1}", "{1: 'x', 'a': None, (1, 2): 3}"]
SETS = ["set()", "{1}", "{1, 2, 3}", "{'a', (1, 2)}"]
FSETS = ["frozenset()", "frozenset({1})", "frozenset({'a', (1, 2), 3})"]
TUPLES = ["()", "(1,)", "(1, 2, 3)", "('a', 'ab c')"]
BOOLS = ["False", "True"]
OBJS = ["0", "1", "-1", "3", "2**64", "True", "1.5", "'a'", "'ab c'", "None", "(1, 2)", "[1]", "{'a': 1}", "b'a'",
        "Box(1)"]
OBJS_NO_BIG = [o for o in OBJS if o != "2**64"]
SMALL_NATIVE = ["0", "1", "-1", "2", "5", "-7", "100"]
U8S = ["0", "1", "2", "5", "100"]

# registry RType name -> (annotation, runtime class for isinstance, domain, union partner (annotation, value))
TYPES: dict[str, tuple[str, str | None, list[str], tuple[str, str] | None]] = {
    "builtins.int": ("int", "int", INTS, ("str", "'a'")),
    "builtins.bool": ("bool", "bool", BOOLS, ("str", "'a'")),
    "builtins.float": ("float", "float", FLOATS, ("str", "'a'")),
    "builtins.str": ("str", "str", STRS, ("int", "1")),
    "builtins.bytes": ("bytes", "bytes", BYTES, ("int", "1")),
    "builtins.bytearray": ("bytearray", "bytearray", BYTEARRAYS, ("int", "1")),
    "builtins.list": ("List[Any]", "list", LISTS, ("Tuple[Any, ...]", "(1, 2)")),
    "builtins.dict": ("Dict[Any, Any]", "dict", DICTS, ("List[Any]", "[1]")),
    "builtins.set": ("Set[Any]", "set", SETS, ("List[Any]", "[1]")),
    "builtins.frozenset": ("FrozenSet[Any]", "frozenset", FSETS, ("List[Any]", "[1]")),
    "builtins.tuple": ("Tuple[Any, ...]", "tuple", TUPLES, ("List[Any]", "[1]")),
    "builtins.object": ("Any", None, OBJS, None),
    "i64": ("i64", None, SMALL_NATIVE, None),
    "i32": ("i32", None, SMALL_NATIVE, None),
    "i16": ("i16", None, SMALL_NATIVE, None),
    "u8": ("u8", None, U8S, None),
}
SHORT_INT_LITERALS = ["0", "1", "-1", "5"]

CMP_OPS = {"==", "!=", "<", "<=", ">", ">=", "in"}
SHIFT_OPS = {"<<", ">>", "<<=", ">>="}
POW_OPS = {"**", "**="}
MUL_OPS = {"*", "*="}
SEQ_TYPES = {"builtins.list", "builtins.str", "builtins.bytes", "builtins.tuple", "builtins.bytearray"}

# identity-dependent results: the operand domain is restricted to interpreter singletons
DOMAIN_OVERRIDE = {
    "function:builtins.id": {0: ["None", "True", "0", "1", "''"]},
    "function:builtins.hash": {0: [o for o in OBJS if o != "Box(1)"] + ["-1", "2**61 - 1", "frozenset({1})", "{1}"]},
}
# functions whose fixed-width results are unspecified out of range (covered by C15): small non-negative values
NATIVE_CONV = {"mypy_extensions.i64", "mypy_extensions.i32", "mypy_extensions.i16", "mypy_extensions.u8"}
NATIVE_CONV_DOMS = {"builtins.float": ["0.0", "1.5", "100.0", "-0.0"], "builtins.str": ["'0'", "'12'", "' 7 '", "'x'", "''"],
                    "builtins.int": ["10", "2", "0", "16", "37"]}

ISINSTANCE_TYPES = ["bytes", "dict", "float", "list", "bool", "str", "tuple", "set", "frozenset", "int", "bytearray",
                    "(int, str)", "object"]


def _rname(t: Any) -> str:
    """Name of a registry RType ('builtins.list', 'short_int', 'union[...]', ...)."""
    n = getattr(t, "name", None)
    if isinstance(n, str):
        return n
    return str(t)


def registry_entries() -> list[dict]:
    """Every entry of the four registry tables, in registry order."""
    import mypy.build  # noqa: F401 - import order (mypy first) avoids a circular import
    import mypyc.irbuild.ll_builder  # noqa: F401 - imports every mypyc.primitives.* module
    from mypyc.ir.rtypes import RUnion
    from mypyc.primitives import registry as R

    out = []
    for table, kind in (("method_call_ops", "method"), ("function_ops", "function"), ("binary_ops", "binary"),
                        ("unary_ops", "unary")):
        for name, descs in getattr(R, table).items():
            for k, p in enumerate(descs):
                args = []
                for t in p.arg_types:
                    if isinstance(t, RUnion):
                        args.append("union[" + ",".join(_rname(i) for i in t.items) + "]")
                    else:
                        args.append(_rname(t))
                ret = _rname(p.return_type)
                trunc = _rname(p.truncated_type) if p.truncated_type is not None else None
                out.append({"id": f"{kind}:{name}({','.join(args)})#{k}", "kind": kind, "name": name, "args": args,
                            "ret": ret, "trunc": trunc, "c": p.c_function_name, "var_arg": p.var_arg_type is not None,
                            "experimental": bool(getattr(p, "experimental", False)),
                            "error_kind": p.error_kind, "priority": p.priority})
    return out


def _excluded(e: dict) -> str | None:
    """Reason why no candidate is generated for a registry entry (stated exclusions of the space)."""
    if e["name"].startswith("librt.") or any(a.startswith(("librt.", "vec[")) or "librt." in a for a in e["args"]):
        return "librt"
    if e["name"].startswith("CPyFunction_"):
        return "internal (not callable by name)"
    if e["experimental"]:
        return "experimental"
    if e["var_arg"]:
        return "var-arg primitive"
    for a in e["args"]:
        if a.startswith("union["):
            if any(i not in TYPES for i in a[6:-1].split(",")):
                return f"operand type {a} has no value domain"
        elif a not in TYPES and a != "short_int":
            return f"operand type {a} has no value domain"
    if e["kind"] == "function":
        mod = e["name"].rsplit(".", 1)[0]
        if mod != "builtins":
            try:
                if importlib.util.find_spec(mod) is None:
                    return f"module {mod} does not exist"
            except (ImportError, ValueError):
                return f"module {mod} does not exist"
    return None


def _ann(a: str) -> tuple[str, str | None, list[str], tuple[str, str] | None]:
    if a.startswith("union["):
        items = a[6:-1].split(",")
        anns = [TYPES[i][0] for i in items]
        dom: list[str] = []
        for i in items:
            dom += TYPES[i][2][:3]
        return ("Union[" + ", ".join(anns) + "]", None, dom, None)
    return TYPES[a]


def _expr(e: dict, names: list[str], stmt_form: bool = False) -> tuple[list[str], str]:
    """(statement lines, expression to return) for a registry entry applied to operand names."""
    kind, name = e["kind"], e["name"]
    if kind == "method":
        if name == "__getitem__":
            return [], f"{names[0]}[{names[1]}]"
        if name == "__setitem__":
            return [f"{names[0]}[{names[1]}] = {names[2]}"], "None"
        if name == "__delitem__":
            return [f"del {names[0]}[{names[1]}]"], "None"
        ex = f"{names[0]}.{name}({', '.join(names[1:])})"
    elif kind == "function":
        mod, fn = name.rsplit(".", 1)
        callee = fn if mod == "builtins" else name
        ex = f"{callee}({', '.join(names)})"
    elif kind == "binary":
        if name.endswith("=") and name not in ("==", "!=", "<=", ">="):
            return [f"{names[0]} {name} {names[1]}"], names[0]
        return [], f"{names[0]} {name} {names[1]}"
    else:
        return [], f"{name} {names[0]}"
    if stmt_form:
        return [ex], "None"
    return [], ex


def _maybe_void(e: dict) -> bool:
    """Primitives whose C result is only a status (mutators such as list.append): the call is (also) generated
    as a statement, since mypy rejects using the value of a function that returns None."""
    return e["kind"] in ("method", "function") and e["trunc"] is None and e["ret"] in ("i32", "bit", "void", "None")


def _is_boolish(e: dict) -> bool:
    return (e["ret"] in ("builtins.bool", "bit") or e["trunc"] in ("builtins.bool", "bit")
            or (e["kind"] == "binary" and e["name"] in CMP_OPS) or (e["kind"] == "unary" and e["name"] == "not"))


def _domain(e: dict, i: int, a: str, quick: bool) -> list[str]:
    key = f"{e['kind']}:{e['name']}"
    if key in DOMAIN_OVERRIDE and i in DOMAIN_OVERRIDE[key]:
        return DOMAIN_OVERRIDE[key][i]
    if e["name"] in NATIVE_CONV and a in NATIVE_CONV_DOMS:
        return NATIVE_CONV_DOMS[a]
    dom = _ann(a)[2]
    if a == "builtins.int":
        dom = INTS_Q if quick else INTS
    others = [x for j, x in enumerate(e["args"]) if j != i]
    if e["kind"] == "binary":
        if e["name"] in SHIFT_OPS and i == 1:
            return COUNTS if a == "builtins.int" else OBJS
        if e["name"] in POW_OPS and i == 1:
            return EXPONENTS if a == "builtins.int" else OBJS_NO_BIG
        if e["name"] in MUL_OPS and a == "builtins.int" and any(o in SEQ_TYPES for o in others):
            return COUNTS
    if e["kind"] == "function" and e["name"] == "builtins.pow" and i == 1:
        return OBJS_NO_BIG
    if e["kind"] == "function" and e["name"] in ("builtins.bytearray", "builtins.bytes") and a == "builtins.object":
        return [o for o in OBJS if o != "3"] + ["[1, 255]", "[256]"]
    return dom


def _entry_units(e: dict, typings: list[str], quick: bool, add: Any, stmt_form: bool) -> None:
    n = len(e["args"])
    names = [f"a{i}" for i in range(n)]
    lit_pos = [i for i, a in enumerate(e["args"]) if a == "short_int"]
    args = ["builtins.int" if a == "short_int" else a for a in e["args"]]
    base = [_ann(a) for a in args]
    doms = [_domain(e, i, a, quick) for i, a in enumerate(args)]
    stmts, ret = _expr(e, names, stmt_form)
    anns = [b[0] for b in base]
    for typing in typings:
        if typing == "exact":
            add(e, typing, anns, doms, stmts, ret)
            if _is_boolish(e) and not stmts:
                add(e, typing, anns, doms, [f"if {ret}:", "    return 'T'"], "'F'", "+cond")
            if e["kind"] == "binary" and e["name"] == "in":
                add(e, typing, anns, doms, [], f"{names[0]} not in {names[1]}", "+notin")
            # literal operands (short_int primitives are selected by literals)
            for i in (lit_pos or [j for j, a in enumerate(args) if a == "builtins.int"][:1]):
                if not lit_pos and (quick or n > 2):
                    continue
                for lit in SHORT_INT_LITERALS:
                    nm = [lit if j == i else x for j, x in enumerate(names)]
                    s2, r2 = _expr(e, nm, stmt_form)
                    if (s2 and s2[0].startswith(lit)) or r2 == lit:
                        continue  # an in-place operator needs a variable on the left
                    add(e, typing, [b[0] for j, b in enumerate(base) if j != i],
                        [d for j, d in enumerate(doms) if j != i], s2, r2, f"+lit{i}={lit}",
                        [x for j, x in enumerate(names) if j != i])
        elif typing == "object":
            if all(b[0] == "Any" for b in base):
                continue
            add(e, typing, ["Any"] * n, doms, stmts, ret)
        elif typing == "optional":
            idx = [i for i, b in enumerate(base) if b[0] != "Any" and b[1] is not None]
            if not idx:
                continue
            an2 = [f"Optional[{b[0]}]" if i in idx else b[0] for i, b in enumerate(base)]
            d2 = [d + ["None"] if i in idx else d for i, d in enumerate(doms)]
            guard = " or ".join(f"a{i} is None" for i in idx)
            add(e, typing, an2, d2, [f"if {guard}:", "    return '<none>'"] + stmts, ret)
        elif typing == "union":
            idx = [i for i, b in enumerate(base) if b[3] is not None]
            if not idx:
                continue
            an2 = [f"Union[{b[0]}, {b[3][0]}]" if i in idx else b[0] for i, b in enumerate(base)]  # type: ignore[index]
            d2 = [d + [base[i][3][1]] if i in idx else d for i, d in enumerate(doms)]  # type: ignore[index]
            guard = " or ".join(f"not isinstance(a{i}, {base[i][1]})" for i in idx)
            add(e, typing, an2, d2, [f"if {guard}:", "    return '<other>'"] + stmts, ret)


ELEM_TYPES: dict[str, tuple[str, list[str]]] = {
    "builtins.list": ("List[int]", ["[]", "[1]", "[1, 2, 3]", "[2**64, 1]"]),
    "builtins.dict": ("Dict[str, int]", ["{}", "{'a': 1}", "{'a': 1, 'zz': 2**64}"]),
    "builtins.set": ("Set[int]", ["set()", "{1}", "{1, 2, 3}"]),
    "builtins.frozenset": ("FrozenSet[int]", ["frozenset()", "frozenset({1, 2**64})"]),
    "builtins.tuple": ("Tuple[int, ...]", ["()", "(1,)", "(1, 2, 3)"]),
}
ELEM_OBJ: list[tuple[str, list[str]]] = [("int", ["0", "1", "3", "2**64"]), ("str", ["'a'", "'zz'"])]


def _elem_units(e: dict, quick: bool, add: Any, stmt_form: bool) -> None:
    """Containers with precise element types (results are unboxed to the element type); every `object`
    operand is tried as int and as str - mypy keeps the combinations that type-check."""
    args = ["builtins.int" if a == "short_int" else a for a in e["args"]]
    if not any(a in ELEM_TYPES for a in args) or any(a.startswith("union[") for a in args):
        return
    names = [f"a{i}" for i in range(len(args))]
    stmts, ret = _expr(e, names, stmt_form)
    obj_pos = [i for i, a in enumerate(args) if a == "builtins.object"]
    for choice in itertools.product(range(len(ELEM_OBJ)), repeat=len(obj_pos)):
        anns, doms = [], []
        for i, a in enumerate(args):
            if a in ELEM_TYPES:
                anns.append(ELEM_TYPES[a][0])
                doms.append(ELEM_TYPES[a][1])
            elif a == "builtins.object":
                t, dom = ELEM_OBJ[choice[obj_pos.index(i)]]
                anns.append(t)
                doms.append(dom)
            else:
                anns.append(_ann(a)[0])
                doms.append(_domain(e, i, a, True))
        add(e, "elem", anns, doms, stmts, ret, "(" + ",".join(anns) + ")")


def family_a(quick: bool) -> tuple[list[dict], dict]:
    """Primitive registry sweep.  quick: exact typing + literal + condition variants only."""
    entries = registry_entries()
    units: list[dict] = []
    seen: dict[str, dict] = {}
    excluded: dict[str, str] = {}
    typings = ["exact"] if quick else ["exact", "object", "optional", "union"]

    def add(e: dict, typing: str, anns: list[str], doms: list[list[str]], body: list[str], ret: str, tag: str = "",
            pnames: list[str] | None = None) -> None:
        pn = pnames or [f"a{i}" for i in range(len(anns))]
        params = ", ".join(f"{x}: {t}" for x, t in zip(pn, anns))
        key = f"{params}|{body}|{ret}"
        u = seen.get(key)
        if u is not None:
            if e["id"] not in u["entries"]:
                u["entries"].append(e["id"])
            return
        name = f"a_{len(units):04d}"
        src = [f"def {name}({params}) -> Any:"] + ["    " + b for b in body] + [f"    return {ret}", ""]
        try:
            compile("\n".join(src), "<candidate>", "exec")
        except SyntaxError:
            seen[key] = {"entries": []}  # e.g. `0.bit_length()`: not a program
            return
        prim = e["id"].split("#")[0]
        u = {"name": name, "family": "a", "construct": f"{prim}/{typing}{tag}",
             "sigkey": f"{prim}|{'generic' if typing == 'object' else 'prim'}", "entries": [e["id"]],
             "src": "\n".join(src), "doms": doms, "calls": [f"M.{name}({', '.join(f'a{i}' for i in range(len(anns)))})"],
             "alias": len(anns) >= 2 and doms[0] == doms[1] and e["kind"] in ("method", "binary")}
        seen[key] = u
        units.append(u)

    for e in entries:
        why = _excluded(e)
        if why:
            excluded[e["id"]] = why
            continue
        if e["name"] == "builtins.isinstance" and len(e["args"]) == 1:
            continue  # covered by the isinstance(x, <type>) candidates below
        variants = [e]
        for i, a in enumerate(e["args"]):
            if a.startswith("union["):
                # additionally each member type of a union-typed operand on its own
                for item in a[6:-1].split(","):
                    variants.append(dict(e, args=[item if j == i else x for j, x in enumerate(e["args"])]))
        for ev in variants:
            forms = [False, True] if _maybe_void(ev) else [False]
            for stmt_form in forms:
                _entry_units(ev, typings, quick, add, stmt_form)
                if not quick:
                    _elem_units(ev, quick, add, stmt_form)

    # isinstance(x, T) for builtin classes (the one-argument registry entries are selected by the class)
    isi = [e for e in entries if e["name"] == "builtins.isinstance" and len(e["args"]) == 1]
    if isi:
        for t in ISINSTANCE_TYPES:
            e = dict(isi[0], id=f"function:builtins.isinstance(builtins.object,<{t}>)#0")
            add(e, "exact", ["Any"], [OBJS + ["{1}", "frozenset()", "bytearray(b'a')"]], [], f"isinstance(a0, {t})")
            add(e, "exact", ["Any"], [OBJS + ["{1}", "frozenset()", "bytearray(b'a')"]],
                [f"if isinstance(a0, {t}):", "    return 'T'"], "'F'", "+cond")
    extra_imports = sorted({e["name"].rsplit(".", 1)[0] for e in entries
                            if e["kind"] == "function" and e["id"] not in excluded} - {"builtins"})
    for u in units:
        u["imports"] = extra_imports
    info = {"registry_entries": len(entries), "excluded": excluded,
            "entries": {e["id"]: e["c"] for e in entries}}
    return units, info


# --------------------------------------------------------------------------- module packing


def module_source(units: list[dict]) -> tuple[str, dict[str, tuple[int, int]]]:
    """Source text of a module holding the units, and the line span (first, last) of every unit."""
    imports: list[str] = []
    for u in units:
        for m in u.get("imports", []):
            if m not in imports:
                imports.append(m)
    lines = HEADER.rstrip("\n").split("\n") + [f"import {m}" for m in imports] + [""]
    pre_seen: set[str] = set()
    for u in units:
        pre = u.get("prelude") or []
        for p in ([pre] if isinstance(pre, str) else pre):  # one chunk or a list of chunks, each emitted once
            if p not in pre_seen:
                pre_seen.add(p)
                lines += p.rstrip("\n").split("\n") + [""]
    spans = {}
    wrap = None
    for u in units:
        w = u.get("wrap")
        if w != wrap:
            wrap = w
            if w:
                lines += w.rstrip("\n").split("\n")
        first = len(lines) + 1
        lines += u["src"].rstrip("\n").split("\n") + [""]
        spans[u["name"]] = (first, len(lines))
    return "\n".join(lines) + "\n", spans


def weight(u: dict) -> float:
    """Rough relative C-compile cost of a unit (used only to balance modules)."""
    f = u["family"]
    if f == "a":
        return 1.0
    if f == "b":
        return 1.5
    if f == "c":
        return {"func": 1.0, "method": 1.0, "static": 1.0, "class": 1.5, "init": 2.5}[u["callee"]]
    if f == "d":
        return 4.0 if u["name"].startswith("dh_") else 6.0 if u["name"] == "dbits" else 1.5
    if f == "h":
        return 0.31 * u["depth"]
    if f == "o":
        return 0.8
    return 3.0


def pack(units: list[dict], capacity: float) -> list[list[dict]]:
    """Split a family's units (in order) into modules of at most `capacity` total weight."""
    mods: list[list[dict]] = []
    cur: list[dict] = []
    load = 0.0
    for u in units:
        w = weight(u)
        if cur and load + w > capacity:
            mods.append(cur)
            cur, load = [], 0.0
        cur.append(u)
        load += w
    if cur:
        mods.append(cur)
    return mods


def strip(unit: dict) -> dict:
    """The part of a unit the driver needs."""
    return {k: unit[k] for k in ("name", "module", "family", "construct", "doms", "calls", "alias", "shapes", "call_tags")
            if k in unit}



# =========================================================================== family (c): call shapes

CALLEE_KINDS = ("func", "method", "static", "class", "init")
CLASS_WRAP = {"method": "class CM:", "static": "class CS:", "class": "class CC:"}


def render_sig_c(seq: tuple | list) -> tuple[str, str, str, str]:
    """(parameter list source with distinct defaults, names of the named parameters, result tuple source)."""
    from mc.c12_calls import NAMES

    parts: list[str] = []
    names = ""
    res: list[str] = []
    po = ""
    has_po = any(k in ("po", "pod") for k in seq)
    slash_done = not has_po
    star_done = False
    i = 0
    for k in seq:
        if k not in ("po", "pod") and not slash_done:
            parts.append("/")
            slash_done = True
        if k in ("ko", "kod") and not star_done:
            if "va" not in seq:
                parts.append("*")
            star_done = True
        if k == "va":
            parts.append("*args: int")
            res.append("args")
            star_done = True
            continue
        if k == "vk":
            parts.append("**kw: int")
            res.append("kw")
            continue
        n = NAMES[i]
        i += 1
        names += n
        res.append(n)
        if k in ("po", "pod"):
            po += n
        parts.append(f"{n}: int" + (f" = -{i}" if k.endswith("d") else ""))
    if not slash_done:
        parts.append("/")
    return ", ".join(parts), names, "(" + "".join(r + ", " for r in res) + ")", po


def render_call_c(target: str, shape: tuple | list) -> str:
    """A call with distinct argument values: i-th actual -> positional 1i, keyword 2i, *tuple of 3i.., **dict of 4i.."""
    out = []
    for i, a in enumerate(shape):
        if a[0] == "p":
            out.append(f"1{i}")
        elif a[0] == "k":
            out.append(f"{a[1]}=2{i}")
        elif a[0] == "t":
            out.append("*(" + "".join(f"3{i}{j}, " for j in range(a[1])) + ")")
        else:
            out.append("**{" + ", ".join(f"'{k}': 4{i}{j}" for j, k in enumerate(a[1])) + "}")
    return f"{target}({', '.join(out)})"


def shape_calls(spec: dict) -> list[tuple[str, str]]:
    """Expand a unit's compact call-shape spec (driver side): [(call over F, target expression)]."""
    from mc.c12_calls import shapes

    out = []
    for sh in shapes(spec["names"], spec["max_actuals"], spec["max_keys"]):
        c = render_call_c("F", sh)
        for t in spec["targets"]:
            out.append((c, t))
    return out


def family_c(max_params: int, max_actuals: int, max_keys: int) -> tuple[list[dict], dict]:
    from mc.c12_calls import signatures

    sigs = signatures(max_params)
    units: list[dict] = []
    for kind in CALLEE_KINDS:
        group: list[dict] = []
        for k, seq in enumerate(sigs):
            src, names, res, po = render_sig_c(seq)
            sep = ", " if src else ""
            cons = f"{kind}({src})"
            if kind == "func":
                name = f"cf_{k:03d}"
                text = f"def {name}({src}) -> Any:\n    return {res}\n"
                targets = [f"M.{name}"]
            elif kind == "method":
                name = f"cm_{k:03d}"
                text = f"    def {name}(self{sep}{src}) -> Any:\n        return {res}\n"
                targets = [f"M.CM().{name}"]
            elif kind == "static":
                name = f"cs_{k:03d}"
                text = f"    @staticmethod\n    def {name}({src}) -> Any:\n        return {res}\n"
                targets = [f"M.CS.{name}"] + ([f"M.CS().{name}"] if k % 16 == 0 else [])
            elif kind == "class":
                name = f"cc_{k:03d}"
                text = f"    @classmethod\n    def {name}(cls{sep}{src}) -> Any:\n        return (cls.__name__,) + {res}\n"
                targets = [f"M.CC.{name}"] + ([f"M.CC().{name}"] if k % 16 == 0 else [])
            else:
                name = f"CI_{k:03d}"
                text = (f"class {name}:\n    def __init__(self{sep}{src}) -> None:\n        self.v: Any = {res}\n"
                        f"    def _state(self) -> Any:\n        return self.v\n")
                targets = [f"M.{name}"]
            group.append({"name": name, "family": "c", "construct": cons,
                          "sigkey": "init-wrapper" if kind == "init" else "call-wrapper",
                          "src": text, "calls": [], "doms": [], "alias": False,
                          "shapes": {"names": names, "max_actuals": max_actuals, "max_keys": max_keys, "targets": targets,
                                     "po_names": po},
                          "callee": kind, "wrap": CLASS_WRAP.get(kind)})
        units += group
    return units, {"signatures": len(sigs), "callee_kinds": list(CALLEE_KINDS)}




# =========================================================================== family (e): control / exception forms

# action -> statements (executed when `i == m`); out is the trace list
_ACT = {
    "pass": ["pass"],
    "raiseV": ["raise ValueError('P:V' + TAG + str(i))"],
    "raiseK": ["raise KeyError('P:K' + TAG + str(i))"],
    "reraise": ["raise"],
    "return": ["return out"],
    "break": ["break"],
    "continue": ["continue"],
}
A_BODY = ["pass", "raiseV", "raiseK", "return", "break", "continue"]
A_EXC = ["pass", "reraise", "raiseK", "return", "break"]
A_ELSE = ["pass", "raiseK", "return", "break"]
A_FIN = ["pass", "raiseK", "return", "break"]


def _clause(head: str, tag: str, action: str, ind: str) -> list[str]:
    lines = [f"{ind}{head}", f"{ind}    out.append('{tag}' + str(i))"]
    if action != "pass":
        lines.append(f"{ind}    if i == m:")
        lines += [f"{ind}        " + s.replace("TAG", repr(tag)) for s in _ACT[action]]
    return lines


def _try_unit(k: int, body: str, exc: str | None, els: str | None, fin: str | None) -> dict:
    name = f"et_{k:04d}"
    ln = [f"def {name}(m: int) -> Any:", "    out: List[str] = []", "    for i in range(3):"]
    ln += _clause("try:", "t", body, "        ")
    if exc is not None:
        ln += _clause("except ValueError as e:", "x", exc, "        ")
        ln.insert(len(ln) - (0 if exc == "pass" else 1 + len(_ACT[exc])), "            out.append(str(e))")
    if els is not None:
        ln += _clause("else:", "e", els, "        ")
    if fin is not None:
        ln += _clause("finally:", "f", fin, "        ")
    ln += ["        out.append('a' + str(i))", "    out.append('end')", "    return out", ""]
    shape = "try" + ("/except" if exc is not None else "") + ("/else" if els is not None else "") + ("/finally" if fin is not None else "")
    cons = f"{shape}: body={body}" + (f" except={exc}" if exc is not None else "") + (f" else={els}" if els is not None else "") \
        + (f" finally={fin}" if fin is not None else "")
    return {"name": name, "family": "e", "construct": cons, "sigkey": cons, "src": "\n".join(ln),
            "doms": [["0", "1", "3"]], "calls": [f"M.{name}(a0)"], "alias": False}


GEN_FORMS: list[tuple[str, str]] = [
    ("plain", """\
def {n}(k: int) -> Iterator[int]:
    for i in range(k):
        yield i
"""),
    ("send-values", """\
def {n}(k: int) -> Generator[int, Any, str]:
    got: List[Any] = []
    for i in range(k):
        x = yield i
        got.append(x)
    return 'P:' + repr(got)
"""),
    ("finally-prints", """\
def {n}(k: int) -> Generator[int, Any, str]:
    try:
        for i in range(k):
            x = yield i
            print('got', x)
    finally:
        print('cleanup')
    return 'P:ret'
"""),
    ("except-yields", """\
def {n}(k: int) -> Generator[Any, Any, None]:
    i = 0
    while i < k:
        try:
            x = yield i
            print('sent', x)
        except ValueError as e:
            yield 'caught ' + str(e)
        i += 1
"""),
    ("ignores-generatorexit", """\
def {n}(k: int) -> Generator[Any, Any, None]:
    for i in range(k):
        try:
            yield i
        except GeneratorExit:
            yield 'ignored'
"""),
    ("raises-midway", """\
def {n}(k: int) -> Generator[int, Any, None]:
    for i in range(k):
        if i == 1:
            raise KeyError('P:mid')
        yield i
"""),
    ("yield-from-native", """\
def {n}_sub(k: int) -> Generator[int, Any, str]:
    try:
        for i in range(k):
            x = yield i
            print('sub got', x)
    except ValueError as e:
        print('sub caught', e)
        yield -1
    finally:
        print('sub cleanup')
    return 'P:sub'

def {n}(k: int) -> Generator[Any, Any, str]:
    r = yield from {n}_sub(k)
    yield r
    return 'P:outer'
"""),
    ("yield-from-list", """\
def {n}(k: int) -> Generator[Any, Any, None]:
    yield from [10, 20][:k]
    yield 'after'
"""),
    ("return-in-try-yield-in-finally", """\
def {n}(k: int) -> Generator[Any, Any, str]:
    try:
        if k == 0:
            return 'P:early'
        yield 1
        return 'P:late'
    finally:
        yield 'fin'
"""),
    ("nested-loops-state", """\
def {n}(k: int) -> Iterator[Tuple[int, str]]:
    for i in range(k):
        for s in 'ab':
            if i == 1 and s == 'b':
                continue
            yield (i, s)
"""),
]

GEN_OPS = ["('next',)", "('send', None)", "('send', 7)", "('throw', ValueError('P:t'))", "('throw', KeyError)", "('close',)"]

NESTED_FORMS: list[tuple[str, str, list[str]]] = [
    ("closure-captures-param", """\
def {n}(a: int) -> Any:
    def inner(b: int) -> int:
        return a * 10 + b
    return [inner(1), inner(a)]
""", ["0", "3", "2**64"]),
    ("closure-returned", """\
def {n}(a: int) -> Callable[[int], int]:
    def inner(b: int) -> int:
        return a - b
    return inner
""", ["5"]),
    ("nonlocal-counter", """\
def {n}(a: int) -> Any:
    count = 0
    def bump() -> int:
        nonlocal count
        count += a
        return count
    return [bump(), bump(), count]
""", ["1", "2**62"]),
    ("two-level-nonlocal", """\
def {n}(a: int) -> Any:
    x = a
    def mid() -> Any:
        y = x + 1
        def low() -> int:
            nonlocal x
            x += y
            return x
        return [low(), low()]
    return [mid(), x]
""", ["0", "7"]),
    ("lambda-late-binding", """\
def {n}(a: int) -> Any:
    fs = []
    for i in range(a):
        fs.append(lambda: i)
    return [f() for f in fs]
""", ["0", "3"]),
    ("lambda-default-binding", """\
def {n}(a: int) -> Any:
    fs = []
    for i in range(a):
        fs.append(lambda j=i: j * 2)
    return [f() for f in fs]
""", ["0", "3"]),
    ("captured-assigned-after-def", """\
def {n}(a: int) -> Any:
    def inner() -> int:
        return later + 1
    later = a
    return inner()
""", ["4"]),
    ("captured-unbound", """\
def {n}(a: int) -> Any:
    def inner() -> int:
        return later + 1
    if a > 0:
        later = a
    return inner()
""", ["0", "4"]),
    ("recursive-nested", """\
def {n}(a: int) -> Any:
    def fact(k: int) -> int:
        if k <= 1:
            return 1
        return k * fact(k - 1)
    return fact(a)
""", ["0", "5", "25"]),
    ("nested-default-from-outer", """\
def {n}(a: int) -> Any:
    def inner(b: int = a + 1, *rest: int, c: str = 'c') -> Any:
        return (b, rest, c)
    return [inner(), inner(0), inner(1, 2, 3, c='z')]
""", ["1"]),
    ("nested-generator-captures", """\
def {n}(a: int) -> Any:
    base = a
    def g() -> Iterator[int]:
        nonlocal base
        for i in range(3):
            base += i
            yield base
    return [list(g()), base]
""", ["0", "10"]),
    ("closure-over-loop-var-and-exception", """\
def {n}(a: int) -> Any:
    out: List[Any] = []
    def add(x: Any) -> None:
        out.append(x)
    for i in range(a):
        try:
            if i % 2:
                raise ValueError('P:odd' + str(i))
            add(i)
        except ValueError as e:
            add(str(e))
        finally:
            add('f')
    return out
""", ["0", "3"]),
    ("lambda-in-comprehension", """\
def {n}(a: int) -> Any:
    return [(lambda x: x * a)(i) for i in range(3)]
""", ["0", "2"]),
    ("nested-raises-through", """\
def {n}(a: int) -> Any:
    def inner(k: int) -> int:
        if k == 0:
            raise KeyError('P:zero')
        return 10 // k
    try:
        return inner(a)
    except ZeroDivisionError:
        return 'zde'
""", ["0", "3"]),
    ("decorated-nested", """\
def {n}_deco(f: Callable[[int], int]) -> Callable[[int], int]:
    def wrapper(x: int) -> int:
        return f(x) + 1
    return wrapper

def {n}(a: int) -> Any:
    @{n}_deco
    def inner(x: int) -> int:
        return x * 2
    return inner(a)
""", ["0", "21"]),
    ("closure-shared-by-two", """\
def {n}(a: int) -> Any:
    box = [a]
    total = a
    def inc() -> None:
        nonlocal total
        total += 1
        box.append(total)
    def get() -> Any:
        return (total, list(box))
    inc()
    r1 = get()
    inc()
    return [r1, get()]
""", ["0"]),
    ("with-statement-in-nested", """\
class {n}_CM:
    def __init__(self, log: List[str], swallow: bool) -> None:
        self.log = log
        self.swallow = swallow
    def __enter__(self) -> int:
        self.log.append('enter')
        return 5
    def __exit__(self, t: Any, v: Any, tb: Any) -> bool:
        self.log.append('exit ' + (t.__name__ if t else 'None'))
        return self.swallow

def {n}(a: int) -> Any:
    log: List[str] = []
    def run(swallow: bool) -> Any:
        with {n}_CM(log, swallow) as v:
            if a:
                raise ValueError('P:in-with')
            return v
        return 'swallowed'
    r1 = run(True)
    try:
        r2 = run(False)
    except ValueError as e:
        r2 = str(e)
    return [r1, r2, log]
""", ["0", "1"]),
]


def family_e(quick: bool) -> tuple[list[dict], dict]:
    units: list[dict] = []
    k = 0
    shapes = []
    for b in A_BODY:
        for x in A_EXC:
            shapes.append((b, x, None, None))
    for b in A_BODY:
        for f in A_FIN:
            shapes.append((b, None, None, f))
    for b in A_BODY:
        for x in A_EXC:
            for f in A_FIN:
                shapes.append((b, x, None, f))
    if not quick:
        for b in A_BODY:
            for x in A_EXC:
                for el in A_ELSE:
                    for f in A_FIN:
                        shapes.append((b, x, el, f))
    for sh in shapes:
        units.append(_try_unit(k, *sh))
        k += 1
    n_try = len(units)
    # generators: every script of <= L operations
    L = 2 if quick else 3
    scripts: list[str] = []
    for n in range(1, L + 1):
        for ops in itertools.product(GEN_OPS, repeat=n):
            scripts.append("[" + ", ".join(ops) + "]")
    for j, (label, text) in enumerate(GEN_FORMS):
        name = f"eg_{j:02d}"
        units.append({"name": name, "family": "e", "construct": f"generator:{label}", "sigkey": "generator",
                      "src": text.format(n=name), "doms": [["0", "2"]],
                      "calls": [f"drive(M.{name}(a0), {s})" for s in scripts] + [f"list(M.{name}(a0))"], "alias": False})
    for j, (label, text, dom) in enumerate(NESTED_FORMS):
        name = f"en_{j:02d}"
        units.append({"name": name, "family": "e", "construct": f"nested:{label}", "sigkey": f"nested:{label}",
                      "src": text.format(n=name), "doms": [dom],
                      "calls": [f"M.{name}(a0)" if label != "closure-returned" else f"[M.{name}(a0)(1), M.{name}(a0)(a0)]"],
                      "alias": False})
    return units, {"try_forms": n_try, "generator_forms": len(GEN_FORMS), "generator_scripts": len(scripts),
                   "generator_script_alphabet": GEN_OPS, "max_script_length": L, "nested_forms": len(NESTED_FORMS)}


def support_modules(units: list[dict]) -> dict[str, str]:
    """Modules compiled along with the main one: whole files (`support`, family d) and files assembled from the
    parts every unit contributes (`support_parts`, family h)."""
    out: dict[str, str] = {}
    parts: dict[str, list[str]] = {}
    for u in units:
        for fn, text in (u.get("support") or {}).items():
            out[fn] = text
        for fn, text in (u.get("support_parts") or {}).items():
            parts.setdefault(fn, []).append(text)
    if parts:
        from mc.c05_gen2 import H_LIBS, h_support_header

        for lib in H_LIBS:  # every module of the package exists in every build (possibly empty)
            out[lib + ".py"] = h_support_header() + "\n".join(parts.get(lib + ".py", []))
    return out


# =========================================================================== family (b): for-loop helpers

B_LIST = ["[]", "[2**70]", "[1, 2**70, 3]", "[2**70 + 1, 2**71, -2**72, 4]"]
B_STRL = ["[]", "['ab' * 3]", "['x' * 2, 'y' * 3, 'z' * 4]"]
B_ANYL = ["[]", "[(1, 2)]", "[2**70, 'ab' * 2, (1, 2), None]"]
B_TUP = ["()", "(2**70,)", "(1, 2**70, 3)"]
B_STR = ["''", "'a'", "'ab c'", "'\\xe9\\u4e2d\\U0001f600'"]
B_BYTES = ["b''", "b'a'", "b'a\\xff\\x00'"]
B_DICT = ["{}", "{'k' * 2: 2**70}", "{'a' * 2: 1, 'b' * 2: 2**70, 'c' * 2: 3}"]
B_SET = ["set()", "{2**70}", "{1, 2**70, 3}"]
B_FSET = ["frozenset()", "frozenset({2**70, 5})"]
B_K = ["0", "1", "2", "9"]  # the iteration at which the body's special action fires
B_N = ["0", "1", "3", "-1"]
B_START = ["0", "-2", "2**62 - 2", "-2**62 - 1"]
B_ITER = ["iter([])", "iter([1, 2**70, 3])", "iter('ab')", "(x * x for x in [2**40, 3])"]
B_ANYITER = ["[]", "[2**70, 2]", "'ab'", "(1, 'z' * 2)", "{'a' * 2: 1}", "iter([2**70])", "{5}", "range(3)", "b'ab'"]

# kind -> (params [(name, annotation, domain)], loop header over `x`, element expression, mutable container
#          name or None, mutation statements available)
B_KINDS: list[tuple[str, list[tuple[str, str, list[str]]], str, str, str | None]] = [
    ("range(n)", [("n", "int", B_N + ["2"])], "for x in range(n)", "x", None),
    ("range(a,b)", [("a", "int", B_START), ("d", "int", B_N)], "for x in range(a, a + d)", "x", None),
    ("range(a,b,1)", [("a", "int", B_START), ("d", "int", B_N)], "for x in range(a, a + d, 1)", "x", None),
    ("range(a,b,2)", [("a", "int", B_START), ("d", "int", B_N + ["4", "5"])], "for x in range(a, a + d, 2)", "x", None),
    ("range(a,b,-1)", [("a", "int", B_START), ("d", "int", B_N)], "for x in range(a, a - d, -1)", "x", None),
    ("range(a,b,-3)", [("a", "int", B_START), ("d", "int", B_N + ["6", "7"])], "for x in range(a, a - d, -3)", "x", None),
    ("range(a,b,step)", [("a", "int", ["0", "-2"]), ("d", "int", B_N + ["5"]), ("st", "int", ["1", "2", "-1", "-2", "0"])],
     "for x in range(a, a + d, st)", "x", None),
    ("list[int]", [("s", "List[int]", B_LIST)], "for x in s", "x", "list"),
    ("list[str]", [("s", "List[str]", B_STRL)], "for x in s", "x", "list"),
    ("list[Any]", [("s", "List[Any]", B_ANYL)], "for x in s", "x", "list"),
    ("tuple[int,...]", [("s", "Tuple[int, ...]", B_TUP)], "for x in s", "x", None),
    ("str", [("s", "str", B_STR)], "for x in s", "x", None),
    ("bytes", [("s", "bytes", B_BYTES)], "for x in s", "x", None),
    ("reversed(list)", [("s", "List[int]", B_LIST)], "for x in reversed(s)", "x", "list"),
    ("reversed(tuple)", [("s", "Tuple[int, ...]", B_TUP)], "for x in reversed(s)", "x", None),
    ("reversed(str)", [("s", "str", B_STR)], "for x in reversed(s)", "x", None),
    ("dict", [("s", "Dict[str, int]", B_DICT)], "for x in s", "x", "dict"),
    ("dict.keys()", [("s", "Dict[str, int]", B_DICT)], "for x in s.keys()", "x", "dict"),
    ("dict.values()", [("s", "Dict[str, int]", B_DICT)], "for x in s.values()", "x", "dict"),
    ("dict.items()", [("s", "Dict[str, int]", B_DICT)], "for x, y in s.items()", "(x, y)", "dict"),
    ("dict.items()-single-target", [("s", "Dict[str, int]", B_DICT)], "for x in s.items()", "x", "dict"),
    ("set", [("s", "Set[int]", B_SET)], "for x in s", "x", "set"),
    ("frozenset", [("s", "FrozenSet[int]", B_FSET)], "for x in s", "x", None),
    ("set-literal", [("n", "int", ["0", "2**70"])], "for x in {1, 2, 3}", "x + n", None),
    ("enumerate(list)", [("s", "List[int]", B_LIST)], "for x, y in enumerate(s)", "(x, y)", "list"),
    ("enumerate(list,start)", [("s", "List[int]", B_LIST), ("n", "int", ["5", "2**62"])], "for x, y in enumerate(s, n)", "(x, y)", "list"),
    ("enumerate(str)", [("s", "str", B_STR)], "for x, y in enumerate(s)", "(x, y)", None),
    ("enumerate(range)", [("n", "int", B_N)], "for x, y in enumerate(range(n))", "(x, y)", None),
    ("enumerate-single-target", [("s", "List[int]", B_LIST)], "for x in enumerate(s)", "x", "list"),
    ("zip(list,str)", [("s", "List[int]", B_LIST), ("t", "str", B_STR)], "for x, y in zip(s, t)", "(x, y)", "list"),
    ("zip(list,tuple,range)", [("s", "List[int]", B_LIST), ("t", "Tuple[int, ...]", B_TUP), ("n", "int", B_N)],
     "for x, y, z in zip(s, t, range(n))", "(x, y, z)", "list"),
    ("zip(range,dict)", [("n", "int", B_N), ("s", "Dict[str, int]", B_DICT)], "for x, y in zip(range(n), s)", "(x, y)", "dict"),
    ("zip(enumerate,list)", [("s", "List[int]", B_LIST), ("t", "List[str]", B_STRL)],
     "for (x, y), z in zip(enumerate(s), t)", "(x, y, z)", "list"),
    ("native-generator", [("n", "int", B_N)], "for x in b_gen(n)", "x", None),
    ("iterator", [("s", "Iterator[Any]", B_ITER)], "for x in s", "x", None),
    ("any-iterable", [("s", "Any", B_ANYITER)], "for x in s", "x", None),
]

B_PRELUDE = """\
def b_gen(n: int) -> Iterator[int]:
    i = 0
    while i < n:
        yield 2**70 + i
        i += 1
"""

B_MUT = {
    "list": [("append", "s.append(s[0])"), ("pop", "s.pop()"), ("clear", "s.clear()"), ("insert0", "s.insert(0, s[-1])"),
             ("rebind", "s = []")],
    "dict": [("add-key", "s['zz' * 2] = 7"), ("del-key", "del s[next(iter(s))]"), ("clear", "s.clear()"),
             ("set-existing", "s[next(iter(s))] = 8")],
    "set": [("add", "s.add(2**71)"), ("clear", "s.clear()")],
}


def _b_helper(kind: str) -> str:
    """The for_helpers.py generator class a loop over this iterable kind is expected to use."""
    if kind.startswith("range(") and "step" not in kind:
        return "ForRange"
    if kind.startswith("enumerate(") and "start" not in kind:
        return "ForEnumerate"
    if kind.startswith("zip("):
        return "ForZip"
    if kind.split("[")[0] in ("list", "tuple", "str", "bytes") or kind.startswith("reversed("):
        return "ForSequence"
    if kind.startswith("dict"):
        return "ForDictionary"
    if kind == "native-generator":
        return "ForNativeGenerator"
    return "ForIterable"


def _b_unit(idx: int, kind: str, params: list, header: str, elem: str, body: str, lines: list[str], extra_k: bool) -> dict:
    name = f"b_{idx:04d}"
    ps = list(params) + ([("k", "int", B_K)] if extra_k else [])
    sig = ", ".join(f"{n}: {a}" for n, a, _ in ps)
    src = [f"def {name}({sig}) -> Any:"] + ["    " + ln for ln in lines] + [""]
    # the three size-changing mutations of one container kind are one cause class
    sig_body = body
    if body.startswith("mutate-while-iterating:") and body.split(":")[1] not in ("rebind", "set-existing"):
        sig_body = "mutate-while-iterating:resize"
    return {"name": name, "family": "b", "construct": f"for {kind} / {body}", "sigkey": f"{_b_helper(kind)}|{sig_body}",
            "src": "\n".join(src), "doms": [d for _, _, d in ps],
            "calls": [f"M.{name}({', '.join(f'a{i}' for i in range(len(ps)))})"], "alias": False, "prelude": B_PRELUDE}


def family_b() -> tuple[list[dict], dict]:
    units: list[dict] = []
    bodies: set[str] = set()

    def add(kind: str, params: list, header: str, elem: str, body: str, lines: list[str], extra_k: bool = True) -> None:
        bodies.add(body.split(":")[0])
        units.append(_b_unit(len(units), kind, params, header, elem, body, lines, extra_k))

    for kind, params, header, elem, mut in B_KINDS:
        H, X = header, elem
        add(kind, params, H, X, "plain", ["out: List[Any] = []", f"{H}:", f"    out.append({X})", "return out"], False)
        add(kind, params, H, X, "break", ["out: List[Any] = []", f"{H}:", "    if len(out) == k:", "        break",
                                          f"    out.append({X})", "return out"])
        add(kind, params, H, X, "continue", ["out: List[Any] = []", "c = 0", f"{H}:", "    c += 1", "    if c == k:",
                                             "        continue", f"    out.append({X})", "return (out, c)"])
        add(kind, params, H, X, "else", ["out: List[Any] = []", f"{H}:", "    if len(out) == k:", "        break",
                                         f"    out.append({X})", "else:", "    out.append('else')", "return out"])
        add(kind, params, H, X, "return-inside", ["out: List[Any] = []", f"{H}:", "    if len(out) == k:",
                                                  f"        return ('ret', {X}, out)", f"    out.append({X})", "return out"])
        add(kind, params, H, X, "raise-inside", ["out: List[Any] = []", "try:", f"    {H}:", "        if len(out) == k:",
                                                 f"            raise ValueError('P:' + repr({X}))", f"        out.append({X})",
                                                 "except ValueError as e:", "    out.append(str(e))", "return out"])
        add(kind, params, H, X, "nested", ["out: List[Any] = []", f"{H}:", "    first = " + X,
                                           "    " + H + ":", "        if len(out) % 3 == k:", "            break",
                                           f"        out.append((first, {X}))", "return out"])
        add(kind, params, H, X, "list-comprehension", [f"return [{X} {H}]"], False)
        add(kind, params, H, X, "list-comprehension-if", [f"return [{X} {H} if len(repr({X})) % 2 == k % 2]"])
        add(kind, params, H, X, "set-comprehension", [f"return {{{X} {H}}}"], False)
        add(kind, params, H, X, "dict-comprehension", [f"return {{{X}: k {H}}}"])
        if mut:
            for label, stmt in B_MUT[mut]:
                add(kind, params, H, X, f"mutate-while-iterating:{label}",
                    ["out: List[Any] = []", "c = 0", f"{H}:", "    c += 1", "    if c == k:", f"        {stmt}",
                     f"    out.append({X})", "    if c > 12:", "        break", "return out"])
    return units, {"iterable_kinds": [k[0] for k in B_KINDS], "bodies": sorted(bodies),
                   "mutations": {k: [m[0] for m in v] for k, v in B_MUT.items()}}


# =========================================================================== family (d): native classes

LIB = "c05lib"
D_OBJ_X = ["5", "2**62"]


def _hier_classes(j: int, defines: tuple, sup: bool, glue: str) -> tuple[str, str]:
    """(source of A_j, source of B_j and C_j)."""
    ret_a = "object" if glue == "ret-narrow" else "int"
    arg_o = "object" if glue == "arg-wide" else "int"
    a = f"""\
class A_{j}:
    def __init__(self, a: int) -> None:
        self.a = a
    def m(self, x: int) -> {ret_a}:
        return self.a + x
    def who(self) -> str:
        return 'A'
    def _state(self) -> Any:
        return ('A', self.a)
"""

    def meth(level: str, bonus: int) -> str:
        if level not in defines:
            return ""
        lines = [f"    def m(self, x: {arg_o}) -> int:"]
        if glue == "arg-wide":
            lines.append("        v = x if isinstance(x, int) else -1")
        else:
            lines.append("        v = x")
        if sup:
            lines.append("        r = super().m(v)")
            lines.append("        base = r if isinstance(r, int) else -7")
        else:
            lines.append("        base = v")
        lines.append(f"        return base + {bonus}")
        return "\n".join(lines) + "\n"

    bc = f"""\
class B_{j}(A_{j}):
    def __init__(self, a: int) -> None:
        super().__init__(a + 1)
        self.b = 'b' * 2
{meth('B', 100)}    def who(self) -> str:
        return 'B' + super().who()
    def _state(self) -> Any:
        return ('B', self.a, self.b)

class C_{j}(B_{j}):
    def __init__(self, a: int) -> None:
        super().__init__(a * 2)
        self.c: Optional[int] = None if a == 0 else a
{meth('C', 1000)}    def _state(self) -> Any:
        return ('C', self.a, self.b, self.c)
"""
    return a, bc


def _hier_users(j: int, glue: str, wide: bool) -> str:
    return f"""\
def ua_{j}(o: A_{j}, x: int) -> Any:
    return (o.m(x), o.who(), o.a)

def ub_{j}(o: B_{j}, x: int) -> Any:
    return (o.m(x), o.who(), o.a, o.b)

def uc_{j}(o: C_{j}, x: int) -> Any:
    o.c = x
    return (o.m(x), o.c, o)

def uany_{j}(o: Any, x: int) -> Any:
    return (o.m(x), o.who())

def unew_{j}(a: int, x: int) -> Any:
    objs: List[A_{j}] = [A_{j}(a), B_{j}(a), C_{j}(a)]
    return [(o.m(x), isinstance(o, B_{j}), isinstance(o, C_{j})) for o in objs]
""" + (f"""
def uwide_{j}(o: B_{j}, x: object) -> Any:
    return o.m(x)
""" if wide else "")


D_TYPES: list[tuple[str, str, str, list[str]]] = [
    # label, annotation, initial value (source), well-typed values the interpreter may assign
    ("int", "int", "5", ["7", "2**70", "-2**62 - 1"]),
    ("bool", "bool", "True", ["False"]),
    ("float", "float", "1.5", ["-0.0", "nan"]),
    ("str", "str", "'ab' * 2", ["''", "'\\xe9'"]),
    ("optional-str", "Optional[str]", "None", ["'x' * 2", "None"]),
    ("list-int", "List[int]", "[1, 2**70]", ["[]"]),
    ("i64", "i64", "7", ["-3", "2**63 - 1"]),
    ("tuple-int-str", "Tuple[int, str]", "(1, 'a' * 2)", ["(2**70, '')"]),
    ("any", "Any", "None", ["[1]", "2**70"]),
]
D_MODES = ["init", "conditional", "never", "class-default", "deletable"]


def _layout_unit(k: int, tlabel: str, ann: str, init: str, vals: list[str], mode: str) -> dict:
    n = f"L_{k}"
    if mode == "init":
        body = f"    def __init__(self, flag: bool) -> None:\n        self.x: {ann} = {init}\n"
    elif mode == "conditional":
        body = f"    def __init__(self, flag: bool) -> None:\n        if flag:\n            self.x: {ann} = {init}\n"
    elif mode == "never":
        body = f"    x: {ann}\n    def __init__(self, flag: bool) -> None:\n        self.y = flag\n"
    elif mode == "class-default":
        body = f"    x: {ann} = {init}\n    def __init__(self, flag: bool) -> None:\n        self.y = flag\n"
    else:
        body = (f"    __deletable__ = ['x']\n    def __init__(self, flag: bool) -> None:\n        self.x: {ann} = {init}\n"
                f"        if not flag:\n            del self.x\n")
    src = f"""\
class {n}:
{body}    def _state(self) -> Any:
        try:
            return ('x', self.x)
        except AttributeError:
            return 'unset'

def rd_{k}(o: {n}) -> Any:
    return o.x

def wr_{k}(o: {n}, v: {ann}) -> Any:
    o.x = v
    return o.x

def has_{k}(o: {n}) -> Any:
    return (hasattr(o, 'x'), getattr(o, 'x', 'dflt'))
"""
    calls = [f"M.rd_{k}(M.{n}(a0))", f"M.has_{k}(M.{n}(a0))", f"M.{n}(a0)"]
    seqs = [[("has", "x"), ("get", "x")]]
    for v in vals:
        calls.append(f"M.wr_{k}(M.{n}(a0), {v})")
        seqs.append([("set", "x", "\0" + v), ("get", "x"), ("has", "x")])
    if mode == "deletable":
        seqs.append([("del", "x"), ("has", "x"), ("get", "x"), ("del", "x")])
        seqs.append([("del", "x"), ("set", "x", "\0" + vals[0]), ("get", "x")])
    for sq in seqs:
        steps = ", ".join("(" + ", ".join(x[1:] if isinstance(x, str) and x.startswith("\0") else repr(x) for x in st) + ")"
                          for st in sq)
        calls.append(f"apply_seq(M.{n}(a0), [{steps}])")
    return {"name": f"dl_{k:03d}", "family": "d", "construct": f"attribute {tlabel} / {mode}", "sigkey": f"attribute|{mode}",
            "src": src, "doms": [["True", "False"]], "calls": calls, "alias": False}


def _bitmap_unit() -> dict:
    kinds = ["i64", "float", "bool", "int", "i32"]
    inits = {"i64": "{i} - 20", "float": "{i} + 0.5", "bool": "{i} % 2 == 0", "int": "2**70 + {i}", "i32": "-{i}"}
    n_attr = 70
    decl = "\n".join(f"        if mask & (1 << {i}):\n            self.x{i}: {kinds[i % 5]} = " + inits[kinds[i % 5]].format(i=i)
                     for i in range(n_attr))
    st = "\n".join(f"        try:\n            out.append(self.x{i})\n        except AttributeError:\n            out.append('unset')"
                   for i in range(n_attr))
    src = f"""\
class DBits:
    def __init__(self, mask: int) -> None:
{decl}
    def _state(self) -> Any:
        out: List[Any] = []
{st}
        return out

def dbits_set(o: DBits) -> Any:
    o.x0 = 1
    o.x1 = 0.0
    o.x69 = -1
    o.x66 = 113.0
    return o
"""
    return {"name": "dbits", "family": "d", "construct": "attribute definedness bitmap (70 attributes)", "sigkey": "attribute|bitmap",
            "src": src, "doms": [["0", "1", "2", "2**69", "2**70 - 1", "0x5555555555555555555", "2**32", "2**31 | 2**63 | 2**64"]],
            "calls": ["M.DBits(a0)", "M.dbits_set(M.DBits(a0))",
                      "apply_seq(M.DBits(a0), [('get', 'x0'), ('get', 'x1'), ('get', 'x31'), ('get', 'x32'), ('get', 'x63'), "
                      "('get', 'x64'), ('get', 'x69'), ('set', 'x68', 2**70), ('get', 'x68'), ('set', 'x64', -5), ('get', 'x64'), "
                      "('set', 'x66', 113.0), ('get', 'x66'), ('has', 'x65')])"],
            "alias": False}


TRAIT_FORMS: list[tuple[str, str, list[str]]] = [
    ("default-method", """\
@trait
class {n}T:
    def t(self, x: int) -> int:
        return x + 1
    def u(self) -> str:
        return 'T.u'

class {n}I({n}T):
    def __init__(self, v: int) -> None:
        self.v = v
    def _state(self) -> Any:
        return self.v

def {n}_use(o: {n}T, x: int) -> Any:
    return (o.t(x), o.u())

def {n}_use_c(o: {n}I, x: int) -> Any:
    return (o.t(x), o.u(), o.v)
""", ["M.{n}_use(M.{n}I(1), 5)", "M.{n}_use_c(M.{n}I(1), 2**62)", "M.{n}I(2).t(3)", "M.{n}I(2).u()"]),
    ("overridden-method-and-base-class", """\
@trait
class {n}T:
    def t(self, x: int) -> int:
        return x + 1
    def u(self) -> str:
        return 'T.u'

class {n}Base:
    def __init__(self, v: int) -> None:
        self.v = v
    def base(self) -> int:
        return self.v * 2
    def _state(self) -> Any:
        return self.v

class {n}I({n}Base, {n}T):
    def t(self, x: int) -> int:
        return x + self.v + 100
    def base(self) -> int:
        return super().base() + 1

class {n}J({n}I):
    def u(self) -> str:
        return 'J.u'

def {n}_use(o: {n}T, x: int) -> Any:
    return (o.t(x), o.u())

def {n}_use_b(o: {n}Base) -> Any:
    return (o.base(), isinstance(o, {n}T))

def {n}_use_any(o: Any) -> Any:
    if isinstance(o, {n}T):
        return ('trait', o.t(1))
    return 'other'
""", ["M.{n}_use(M.{n}I(1), 5)", "M.{n}_use(M.{n}J(1), 5)", "M.{n}_use_b(M.{n}I(4))", "M.{n}_use_b(M.{n}Base(4))",
      "M.{n}_use_b(M.{n}J(2**62))", "M.{n}_use_any(M.{n}J(3))", "M.{n}_use_any(M.{n}Base(3))", "M.{n}_use_any(7)"]),
    ("trait-attribute-and-abstract", """\
from abc import abstractmethod

@trait
class {n}T:
    n: int
    @abstractmethod
    def name(self) -> str: ...
    def twice(self) -> int:
        return self.n * 2
    def label(self) -> str:
        return self.name() + str(self.n)

class {n}I({n}T):
    def __init__(self, n: int) -> None:
        self.n = n
    def name(self) -> str:
        return 'I'
    def _state(self) -> Any:
        return self.n

class {n}K({n}T):
    def __init__(self, n: int) -> None:
        self.pad = 'pad' * 2
        self.n = n + 1
    def name(self) -> str:
        return 'K' + self.pad
    def _state(self) -> Any:
        return (self.pad, self.n)

def {n}_use(o: {n}T) -> Any:
    o.n += 1
    return (o.twice(), o.label(), o.n)
""", ["M.{n}_use(M.{n}I(3))", "M.{n}_use(M.{n}K(3))", "M.{n}_use(M.{n}K(2**62))", "M.{n}I(1).label()",
      "apply_seq(M.{n}K(1), [('get', 'n'), ('set', 'n', 2**70), ('call', 'twice', ()), ('call', 'label', ())])"]),
]

PROP_FORMS: list[tuple[str, str, list[str]]] = [
    ("read-write-property", """\
class {n}P:
    def __init__(self, v: int) -> None:
        self._v = v
    @property
    def val(self) -> int:
        return self._v * 2
    @val.setter
    def val(self, x: int) -> None:
        if x < 0:
            raise ValueError('P:negative ' + str(x))
        self._v = x
    def _state(self) -> Any:
        return self._v

def {n}_get(o: {n}P) -> Any:
    return o.val

def {n}_set(o: {n}P, x: int) -> Any:
    o.val = x
    o.val += 1
    return (o.val, o)
""", ["M.{n}_get(M.{n}P(3))", "M.{n}_set(M.{n}P(3), 5)", "M.{n}_set(M.{n}P(3), -5)", "M.{n}_set(M.{n}P(3), 2**62)",
      "apply_seq(M.{n}P(3), [('get', 'val'), ('set', 'val', 7), ('get', 'val'), ('set', 'val', -1), ('get', 'val'), ('has', 'val')])"]),
    ("read-only-property-overridden", """\
class {n}P:
    def __init__(self, v: int) -> None:
        self._v = v
    @property
    def val(self) -> int:
        return self._v * 2
    def via(self) -> int:
        return self.val + 1
    def _state(self) -> Any:
        return self._v

class {n}Q({n}P):
    @property
    def val(self) -> int:
        return self._v * 3

class {n}R({n}Q):
    @property
    def val(self) -> int:
        if self._v == 0:
            raise KeyError('P:zero')
        return super().val + 1000

def {n}_get(o: {n}P) -> Any:
    return (o.val, o.via())

def {n}_get_q(o: {n}Q) -> Any:
    return (o.val, o.via())
""", ["M.{n}_get(M.{n}P(3))", "M.{n}_get(M.{n}Q(3))", "M.{n}_get(M.{n}R(3))", "M.{n}_get(M.{n}R(0))", "M.{n}_get_q(M.{n}R(2**62))",
      "M.{n}_get_q(M.{n}Q(1))",
      "apply_seq(M.{n}R(3), [('get', 'val'), ('set', 'val', 7), ('get', 'val'), ('call', 'via', ())])",
      "apply_seq(M.{n}R(0), [('get', 'val'), ('call', 'via', ()), ('has', 'val')])"]),
    ("property-overrides-trait-attribute-glue", """\
class {n}P:
    def __init__(self, v: int) -> None:
        self._v = v
    @property
    def val(self) -> object:
        return self._v
    def _state(self) -> Any:
        return self._v

class {n}Q({n}P):
    @property
    def val(self) -> int:
        return self._v + 1

def {n}_get(o: {n}P) -> Any:
    return o.val

def {n}_get_q(o: {n}Q) -> Any:
    return o.val + 1
""", ["M.{n}_get(M.{n}P(3))", "M.{n}_get(M.{n}Q(3))", "M.{n}_get(M.{n}Q(2**62))", "M.{n}_get_q(M.{n}Q(2**62 - 2))", "M.{n}Q(1).val"]),
]


def family_d() -> tuple[list[dict], dict]:
    units: list[dict] = []
    lib = [HEADER.rstrip("\n"), ""]
    hier = []
    j = 0
    for defines in [(), ("B",), ("C",), ("B", "C")]:
        for sup in (False, True):
            for glue in ("same", "ret-narrow", "arg-wide"):
                a_src, bc_src = _hier_classes(j, defines, sup, glue)
                in_lib = j % 2 == 0
                wide = glue == "arg-wide" and "B" in defines
                if in_lib:
                    lib.append(a_src)
                text = (f"from {LIB} import A_{j}\n\n" if in_lib else a_src + "\n") + bc_src + "\n" + _hier_users(j, glue, wide)
                objs = [f"M.A_{j}(3)", f"M.B_{j}(3)", f"M.C_{j}(3)", f"M.C_{j}(0)"]
                calls = []
                for x in D_OBJ_X:
                    for o in objs:
                        calls.append(f"M.ua_{j}({o}, {x})")
                        calls.append(f"M.uany_{j}({o}, {x})")
                        calls.append(f"{o}.m({x})")
                    for o in objs[1:]:
                        calls.append(f"M.ub_{j}({o}, {x})")
                    for o in objs[2:]:
                        calls.append(f"M.uc_{j}({o}, {x})")
                    calls.append(f"M.unew_{j}(2, {x})")
                if wide:
                    for o in objs[1:]:
                        calls += [f"M.uwide_{j}({o}, 'str')", f"M.uwide_{j}({o}, 4)", f"{o}.m(None)"]
                calls.append(f"apply_seq(M.C_{j}(3), [('get', 'a'), ('get', 'b'), ('get', 'c'), ('set', 'c', 2**70), ('get', 'c'), "
                             f"('set', 'a', -1), ('call', 'm', (1,)), ('call', 'who', ()), ('has', 'zz'), ('get', 'zz')])")
                cons = f"hierarchy depth 3: m overridden in {'+'.join(defines) or 'none'}, super()={sup}, glue={glue}, base in {'lib module' if in_lib else 'same module'}"
                units.append({"name": f"dh_{j:02d}", "family": "d", "construct": cons,
                              "sigkey": f"hierarchy|{'+'.join(defines) or 'none'}|super={sup}|{glue}", "src": text,
                              "doms": [], "calls": calls, "alias": False})
                hier.append(cons)
                j += 1
    k = 0
    for tl, ann, init, vals in D_TYPES:
        for mode in D_MODES:
            units.append(_layout_unit(k, tl, ann, init, vals, mode))
            k += 1
    units.append(_bitmap_unit())
    for t, (label, text, calls) in enumerate(TRAIT_FORMS):
        n = f"dt{t}"
        units.append({"name": n, "family": "d", "construct": f"trait: {label}", "sigkey": f"trait|{label}",
                      "src": text.format(n=n), "doms": [], "calls": [c.format(n=n) for c in calls], "alias": False})
    for t, (label, text, calls) in enumerate(PROP_FORMS):
        n = f"dp{t}"
        units.append({"name": n, "family": "d", "construct": f"property: {label}", "sigkey": f"property|{label}",
                      "src": text.format(n=n), "doms": [], "calls": [c.format(n=n) for c in calls], "alias": False})
    libtext = "\n".join(lib) + "\n"
    for u in units:
        u["support"] = {LIB + ".py": libtext}
    return units, {"hierarchies": len(hier), "attribute_layout_classes": k, "attribute_types": [t[0] for t in D_TYPES],
                   "attribute_modes": D_MODES, "trait_forms": len(TRAIT_FORMS), "property_forms": len(PROP_FORMS)}
