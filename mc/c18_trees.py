"""C18 helper: exhaustive enumeration of small directory trees over the names {a, b}.

A tree is a sorted tuple of root-relative file paths.  Inside every directory each name X in
{a, b} independently contributes any subset of {X.py, X.pyi, directory X/}; a directory carries any
subset of {__init__.py, __init__.pyi} plus (recursively) a content, and must contain at least
one file somewhere below it.  `depth` bounds the nesting of directories, `n` is the exact number
of files (``__init__`` files count).  Trees that are images of each other under the global
renaming a<->b are generated once (the lexicographically smaller one).
"""

from __future__ import annotations

import os
from functools import lru_cache

NAMES = ("a", "b")
INITS: tuple[tuple[str, ...], ...] = ((), ("__init__.py",), ("__init__.pyi",), ("__init__.py", "__init__.pyi"))
_SWAP = str.maketrans("ab", "ba")

Tree = tuple[str, ...]


@lru_cache(None)
def dir_contents(depth: int, n: int) -> tuple[Tree, ...]:
    """All contents of one directory with exactly n files and directory nesting <= depth."""

    def slot(name: str, k: int) -> list[Tree]:
        res: list[Tree] = []
        for py in (0, 1):
            for pyi in (0, 1):
                rest = k - py - pyi
                if rest < 0:
                    continue
                base = ([name + ".py"] if py else []) + ([name + ".pyi"] if pyi else [])
                if rest == 0:
                    res.append(tuple(base))
                elif depth > 0:
                    for init in INITS:
                        r2 = rest - len(init)
                        if r2 < 0:
                            continue
                        for sub in dir_contents(depth - 1, r2):
                            res.append(tuple(base + [name + "/" + i for i in init] + [name + "/" + p for p in sub]))
        return res

    out: list[Tree] = []
    for ka in range(n + 1):
        for ca in slot("a", ka):
            for cb in slot("b", n - ka):
                out.append(tuple(sorted(ca + cb)))
    return tuple(out)


def swap(t: Tree) -> Tree:
    def sw(p: str) -> str:
        return "/".join(c if c.startswith("__init__") else c.translate(_SWAP) for c in p.split("/"))

    return tuple(sorted(sw(p) for p in t))


def tree_depth(t: Tree) -> int:
    return max(p.count("/") for p in t)


def canonical_trees(depth: int, n: int) -> list[Tree]:
    """Exactly-n-file trees, one per a<->b orbit, simplest first."""
    seen = set()
    for t in dir_contents(depth, n):
        c = min(t, swap(t))
        seen.add(c)
    return sorted(seen, key=lambda t: (tree_depth(t), t))


def count_all(depth: int, n: int) -> int:
    return len(dir_contents(depth, n))


# ----------------------------------------------------------------------------- shapes


def dirs_of(t: Tree) -> list[str]:
    ds = set()
    for p in t:
        parts = p.split("/")[:-1]
        for i in range(1, len(parts) + 1):
            ds.add("/".join(parts[:i]))
    return sorted(ds, key=lambda d: (d.count("/"), d))


def files_under(t: Tree, d: str) -> list[str]:
    if d == "":
        return list(t)
    return [p for p in t if p.startswith(d + "/")]


def stem_ext(p: str) -> tuple[str, str, str]:
    d, f = os.path.split(p)
    s, e = os.path.splitext(f)
    return d, s, e


def sibling_stub_set(t: Tree, p: str) -> set[str]:
    """p itself plus the file with the same directory and stem but the other extension, if present."""
    d, s, e = stem_ext(p)
    other = os.path.join(d, s + (".pyi" if e == ".py" else ".py")) if d else s + (".pyi" if e == ".py" else ".py")
    return {p, other} if other in t else {p}


def stub_preferred(files: list[str], t: Tree) -> list[str]:
    """Drop every X.py that has a sibling X.pyi (the stub shadows the source)."""
    out = []
    for p in files:
        d, s, e = stem_ext(p)
        if e == ".py" and ((d + "/" if d else "") + s + ".pyi") in t:
            continue
        out.append(p)
    return out


def local_shape(t: Tree, p: str) -> str:
    """Cause-level description of where file p sits (used in violation signatures)."""
    d, s, e = stem_ext(p)
    tags = []
    if s == "__init__":
        tags.append("init" + e)
    else:
        sub = (d + "/" if d else "") + s
        has_dir = any(q.startswith(sub + "/") for q in t)
        if has_dir:
            has_init = (sub + "/__init__.py") in t or (sub + "/__init__.pyi") in t
            tags.append("module-beside-package-dir" if has_init else "module-beside-initless-dir")
        else:
            tags.append("module")
    if len(sibling_stub_set(t, p)) == 2:
        tags.append("py+pyi" if e == ".py" else "pyi+py")
    return "/".join(tags)


def tree_features(t: Tree) -> list[str]:
    fs = set()
    for p in t:
        sh = local_shape(t, p)
        for tag in sh.split("/"):
            if tag not in ("module", "init.py", "init.pyi"):
                fs.add(tag.replace("pyi+py", "py+pyi"))
    return sorted(fs)
