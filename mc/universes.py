"""Universes: closed little worlds of files x content variants x edits (DESIGN 3.4).

A universe is pure data.  files maps a path (relative to the build root, under tmp/) to its list of
content variants (None = file absent); variant 0 is the initial one.  `sources` lists alternative
command lines, each a list of (path, module); alternative 0 is the initial one.  `touch` lists files
that additionally have an mtime-only edit.  `multi` lists named multi-file edits {path: variant}.
Variants are written so that the freshness mechanisms named in the property anchors are forced to
matter (interface vs body-only change, indirect deps, cycles, (sub)modules appearing and
disappearing, stub shadowing, suppressed imports, root vs followed modules, blockers).
"""

from __future__ import annotations

from dataclasses import dataclass, field
from typing import Any


@dataclass
class Universe:
    name: str
    files: dict[str, list[str | None]]
    sources: list[list[tuple[str, str]]]
    touch: list[str] = field(default_factory=list)
    multi: dict[str, dict[str, int]] = field(default_factory=dict)
    overrides: dict[str, Any] = field(default_factory=dict)
    per_module: dict[str, dict[str, Any]] = field(default_factory=dict)
    fixture: str | None = None
    acyclic: bool = True
    typing_fixture: str | None = None  # test-data/unit/fixtures/<name> installed as tmp/typing.pyi

    def paths(self) -> list[str]:
        return sorted(self.files)


def _m(*mods: str) -> list[tuple[str, str]]:
    return [("tmp/" + m.replace(".", "/") + ".py", m) for m in mods]


# U1 diamond: a -> b, c -> d.  interface vs body-only change, dep hashes, error replay of fresh
# modules, unused-ignore recomputation.
U1 = Universe(
    name="U1-diamond",
    files={
        "tmp/d.py": [
            "def f() -> int:\n    return 1\n",
            "def f() -> str:\n    return ''\n",  # interface change
            "def f() -> int:\n    return ''\n",  # body-only error
            "def f() -> int:\n    return 1\ndef g() -> int:\n    return 2\n",  # new public name
        ],
        "tmp/b.py": [
            "import d\ndef fb() -> int:\n    return d.f()\n",
            "import d\ndef fb() -> str:\n    return d.f()\n",
        ],
        "tmp/c.py": [
            "import d\nx: int = d.f()\n",
            "import d\nx = d.f()\n",
        ],
        "tmp/a.py": [
            "import b, c\ny: int = b.fb()\nz: int = c.x\n",
            "import b, c\ny: int = b.fb()  # type: ignore\nz: int = c.x\n1 + ''\n",
        ],
    },
    sources=[_m("a")],
    touch=["tmp/d.py"],
    overrides={"warn_unused_ignores": True},
)

# U2 indirect: a uses b.f().attr where the type comes from c which a never imports.
U2 = Universe(
    name="U2-indirect",
    files={
        "tmp/a.py": [
            "import b\nx: int = b.f().attr\n",
            "import b\nx = b.f().attr\nreveal_type(x)\n",
        ],
        "tmp/b.py": [
            "import c\ndef f() -> c.C:\n    return c.C()\n",
            "class L:\n    attr: int = 0\ndef f() -> L:\n    return L()\n",  # no longer depends on c
            "from c import C\ndef f() -> C:\n    return C()\n",
        ],
        "tmp/c.py": [
            "class C:\n    attr: int = 0\n",
            "class C:\n    attr: str = ''\n",
            "class B:\n    attr: str = ''\nclass C(B):\n    pass\n",  # attr moves to a base
            None,
        ],
    },
    sources=[_m("a")],
    touch=["tmp/c.py"],
)

# U3 cycle: a <-> b, cycle formed / broken, class in a subclasses class in b.
U3 = Universe(
    name="U3-cycle",
    files={
        "tmp/a.py": [
            "import b\nclass A(b.B):\n    def ma(self) -> int:\n        return self.mb()\n",
            "import b\nclass A(b.B):\n    def ma(self) -> str:\n        return self.mb()\n",
        ],
        "tmp/b.py": [
            "class B:\n    def mb(self) -> int:\n        return 1\n",
            # cycle through a function-level import
            "class B:\n    def mb(self) -> int:\n        import a\n        return a.A().ma()\n",
            # cycle through a top-level import
            "import a\nclass B:\n    def mb(self) -> str:\n        return ''\ndef g() -> 'a.A':\n    return a.A()\n",
        ],
        "tmp/m.py": [
            "import a\nv: int = a.A().ma()\n",
            "import a, b\nv = b.B().mb()\nreveal_type(v)\n",
        ],
    },
    sources=[_m("m")],
    acyclic=False,
)

# U4 package: p/__init__, p/m appear / disappear / change; three import forms.
U4 = Universe(
    name="U4-package",
    files={
        "tmp/p/__init__.py": ["", None, "m: int = 0\n"],
        "tmp/p/m.py": ["x: int = 0\n", None, "x: str = ''\n"],
        "tmp/a.py": [
            "import p.m\nreveal_type(p.m.x)\n",
            "from p.m import x\nreveal_type(x)\n",
            "import p\nreveal_type(p.m)\n",
        ],
    },
    sources=[_m("a")],
)

# U4b: the `from p import m` form, where m may be a submodule or an attribute of p.
U4b = Universe(
    name="U4b-fromimport",
    files={
        "tmp/p/__init__.py": ["", "m: int = 0\n"],
        "tmp/p/m.py": ["x: int = 0\n", None, "x: str = ''\n"],
        "tmp/a.py": [
            "from p import m\nreveal_type(m)\n",
            "from p import m\nimport p.m\nreveal_type(m.x)\n",
        ],
    },
    sources=[_m("a")],
)

# U5 stub shadowing: b.py / b.pyi appear and disappear with disagreeing signatures.
U5 = Universe(
    name="U5-stub",
    files={
        "tmp/b.py": ["def f() -> int:\n    return 0\n", None, "def f() -> int:\n    return ''\n"],
        "tmp/b.pyi": [None, "def f() -> str: ...\n", "def f() -> int: ...\ndef g() -> int: ...\n"],
        "tmp/a.py": ["import b\nreveal_type(b.f())\n", "import b\nreveal_type(b.f())\nb.g()\n"],
    },
    sources=[_m("a")],
)

# U6 missing / suppressed imports and per-module import following.
U6 = Universe(
    name="U6-missing",
    files={
        "tmp/a.py": [
            "import m\nreveal_type(m.v)\n",
            "import m  # type: ignore\nreveal_type(m.v)\n",
            "import m  # type: ignore[import-not-found]\nreveal_type(m.v)\n",
        ],
        "tmp/m.py": [None, "v: int = 0\n", "v: str = ''\n1 + ''\n"],
    },
    sources=[_m("a")],
    overrides={"warn_unused_ignores": True},
)

# U7 roots: same files, different command lines (root vs followed, silent import flip).
U7 = Universe(
    name="U7-roots",
    files={
        "tmp/a.py": ["import b\nx: int = b.y\n", "import b\nx: str = b.y\n"],
        "tmp/b.py": ["y: int = 0\n1 + ''\n", "y: str = ''\n1 + ''\n"],
    },
    sources=[_m("a"), _m("a", "b"), _m("b", "a"), _m("b")],
    overrides={"follow_imports": "silent"},
)

# U8 blockers: syntax error variants; caches left by aborted builds.
U8 = Universe(
    name="U8-blocker",
    files={
        "tmp/a.py": ["import b\nx: int = b.f()\n", "import b\nx: str = b.f()\n"],
        "tmp/b.py": [
            "import c\ndef f() -> int:\n    return c.k\n",
            "import c\ndef f() -> int:\n    return c.k +\n",  # syntax error
            "import c\ndef f() -> str:\n    return c.k\n",
        ],
        # absent: a module that is missing, then appears WITH a syntax error, then is fixed
        "tmp/c.py": ["k: int = 0\n", "k: str = ''\n", "k: int = (\n", None],
    },
    sources=[_m("a")],
)

# U9 (daemon-oriented, also fine for batch): many definition kinds in b, uses of every kind in a.
U9 = Universe(
    name="U9-constructs",
    fixture="dict.pyi",
    files={
        "tmp/b.py": [
            "from typing import TypeVar, Generic\nT = TypeVar('T')\n"
            "class Base:\n    attr: int = 0\n    def meth(self, x: int) -> int:\n        return x\n"
            "class Box(Generic[T]):\n    def __init__(self, v: T) -> None:\n        self.v = v\n"
            "def deco(f: T) -> T:\n    return f\n"
            "Alias = int\nCONST: int = 1\n",
            # method signature change
            "from typing import TypeVar, Generic\nT = TypeVar('T')\n"
            "class Base:\n    attr: int = 0\n    def meth(self, x: str) -> str:\n        return x\n"
            "class Box(Generic[T]):\n    def __init__(self, v: T) -> None:\n        self.v = v\n"
            "def deco(f: T) -> T:\n    return f\n"
            "Alias = int\nCONST: int = 1\n",
            # attribute type + alias target + const type change
            "from typing import TypeVar, Generic\nT = TypeVar('T')\n"
            "class Base:\n    attr: str = ''\n    def meth(self, x: int) -> int:\n        return x\n"
            "class Box(Generic[T]):\n    def __init__(self, v: T) -> None:\n        self.v = v\n"
            "def deco(f: T) -> T:\n    return f\n"
            "Alias = str\nCONST: str = ''\n",
            # decorator becomes type-erasing; Box loses genericity
            "from typing import TypeVar, Generic, Callable, Any\nT = TypeVar('T')\n"
            "class Base:\n    attr: int = 0\n    def meth(self, x: int) -> int:\n        return x\n"
            "class Box:\n    def __init__(self, v: int) -> None:\n        self.v = v\n"
            "def deco(f: Callable[..., Any]) -> Callable[[], str]:\n    return f\n"
            "Alias = int\nCONST: int = 1\n",
        ],
        "tmp/a.py": [
            "import b\n"
            "class D(b.Base):\n    def meth(self, x: int) -> int:\n        return self.attr + x\n"
            "@b.deco\ndef h(q: int) -> int:\n    return q\n"
            "def use() -> None:\n"
            "    y: b.Alias = b.CONST\n"
            "    bx = b.Box(1)\n    reveal_type(bx.v)\n"
            "    reveal_type(h(1))\n"
            "    reveal_type(D().meth(1))\n",
            "from b import *\n"
            "def use() -> None:\n"
            "    z: Alias = CONST\n"
            "    reveal_type(Base().attr)\n"
            "    reveal_type(Box(1))\n",
        ],
    },
    sources=[_m("a")],
)

# U10 rename / swap: atomic multi-file edits (rename b -> b2 with the importer updated; swap contents).
U10 = Universe(
    name="U10-rename",
    files={
        "tmp/a.py": ["import b\nx: int = b.f()\n", "import b2\nx: int = b2.f()\n", "import b, b2\nx: int = b.f()\ny: str = b2.f()\n"],
        "tmp/b.py": ["def f() -> int:\n    return 0\n", None, "def f() -> str:\n    return ''\n"],
        "tmp/b2.py": [None, "def f() -> int:\n    return 0\n", "def f() -> str:\n    return ''\n"],
    },
    sources=[_m("a")],
    multi={
        "rename b->b2": {"tmp/a.py": 1, "tmp/b.py": 1, "tmp/b2.py": 1},
        "rename b2->b": {"tmp/a.py": 0, "tmp/b.py": 0, "tmp/b2.py": 0},
        "swap b<->b2 contents": {"tmp/b.py": 2, "tmp/b2.py": 1},
        "both str": {"tmp/a.py": 2, "tmp/b.py": 2, "tmp/b2.py": 2},
    },
)

# U11 only-once notes: two modules each with an unresolved import; the "See https://..." note is
# emitted once per RUN, but error lines are cached per MODULE.
U11 = Universe(
    name="U11-onlyonce",
    files={
        "tmp/a.py": ["import b\nimport nothere1\n", "import b\nimport nothere1\nx = 1\n"],
        "tmp/b.py": ["import nothere2\n", "import nothere2\ny = 1\n", "y = 1\n"],
    },
    sources=[_m("a")],
)

# U12 indirect dependencies through type LISTS (argument types, union items, tuple items) where the
# interesting element comes after a repeated earlier one; d changes, b's interface bytes do not.
U12 = Universe(
    name="U12-typelist",
    fixture="tuple.pyi",
    files={
        "tmp/a.py": [
            "import b\nb.f(1, 2, 3)\n",
            "import b\nt = b.g()\nr: int = t[2]\n",
            "import b\nb.h(3)\n",
        ],
        "tmp/b.py": [
            "from typing import Tuple, Union\nfrom d import D\n"
            "def f(x: int, y: int, z: D) -> None: ...\n"
            "def g() -> Tuple[int, int, D]: ...\n"
            "def h(x: Union[int, int, D]) -> None: ...\n",
        ],
        "tmp/d.py": [
            "from typing import Union\nD = Union[int, bytes]\n",
            "from typing import Union\nD = Union[str, bytes]\n",
            "D = int\n",
        ],
    },
    sources=[_m("a")],
)

# U13 TypedDict / NamedTuple / dataclass-like declarations whose ORDER is part of the type.
U13 = Universe(
    name="U13-ordered",
    fixture="dict.pyi",
    typing_fixture="typing-typeddict.pyi",
    files={
        "tmp/a.py": ["from b import x\nreveal_type(x)\n", "from b import x\nreveal_type(x)\ny = 1\n"],
        "tmp/b.py": [
            "from typing import TypedDict\nclass TD(TypedDict):\n    b: int\n    a: str\nx: TD\n",
            "from typing import TypedDict\nclass TD(TypedDict):\n    a: str\n    b: int\nx: TD\n",
            "from typing import TypedDict\nclass TD(TypedDict, total=False):\n    z: int\n    a: str\n    m: int\nx: TD\n",
        ],
    },
    sources=[_m("a")],
)

# U14 a submodule that obtains a type of its own ANCESTOR package through another module.
U14 = Universe(
    name="U14-ancestor",
    files={
        "tmp/p/__init__.py": ["class C:\n    attr: int = 0\n", "class C:\n    attr: str = ''\n"],
        "tmp/p/sub.py": ["import q\nx: int = q.get().attr\n", "import q\nx: int = q.get().attr\ny = 1\n"],
        "tmp/q.py": ["import p\ndef get() -> p.C:\n    return p.C()\n"],
        "tmp/a.py": ["import p.sub\n"],
    },
    sources=[_m("a")],
)

# U15 the same module moves between m.py and m.pyi with IDENTICAL content (errors carry the path).
_M_TEXT = "def f() -> int: ...\nx: int = ''\n"
U15 = Universe(
    name="U15-pathswitch",
    files={
        "tmp/a.py": ["import m\nreveal_type(m.f())\n"],
        "tmp/m.py": [_M_TEXT, None],
        "tmp/m.pyi": [None, _M_TEXT],
    },
    sources=[_m("a")],
    multi={"rename m.py->m.pyi": {"tmp/m.py": 1, "tmp/m.pyi": 1}, "rename m.pyi->m.py": {"tmp/m.py": 0, "tmp/m.pyi": 0}},
)

# U16 namespace package appearing: `from p import m` while p does not exist; later the DIRECTORY p (no __init__.py)
# appears with m.py in it (the importer itself is never edited).
U16 = Universe(
    name="U16-nspkg",
    files={
        "tmp/p/m.py": [None, "x: int = 0\n", "x: str = ''\n"],
        "tmp/a.py": ["from p import m\nreveal_type(m.x)\n", "import p.m\nreveal_type(p.m.x)\n"],
    },
    sources=[_m("a")],
)

# U17 plugin: a local plugin decides the type of lib.magic(); editing the PLUGIN's code (nothing else) changes the
# diagnostics of main.py.  The global @plugins_snapshot record is what ties module records to the plugin code.
_PLUG = ("from mypy.plugin import Plugin\nclass P(Plugin):\n    def get_function_hook(self, fullname):\n"
         "        if fullname == 'lib.magic':\n"
         "            return lambda ctx: ctx.api.named_generic_type('builtins.{t}', [])\n        return None\n"
         "def plugin(version):\n    return P\n")
U17 = Universe(
    name="U17-plugin",
    files={
        "tmp/main.py": ["import lib\nimport other\nx: int = lib.magic()\n"],
        "tmp/other.py": ["import lib\ny: str = lib.magic()\n", "import lib\ny: str = lib.magic()\nz: int = ''\n"],
        "tmp/lib.py": ["def magic() -> object: ...\n"],
        "tmp/plug.py": [_PLUG.format(t="int"), _PLUG.format(t="str")],
    },
    sources=[_m("main")],
    overrides={"plugins": ["tmp/plug.py"], "config_file": "mypy.ini"},  # plugins load only with a config file
)

ALL = {u.name.split("-")[0]: u for u in (U10, U11, U12, U13, U14, U15, U16, U17, U1, U2, U3, U4, U4b, U5, U6, U7, U8, U9)}
