"""C17 option table, built by INTROSPECTION so that new options are picked up automatically.

Inputs asked from mypy / its docs (nothing about individual options is hard-coded here):
  * mypy.main.define_options(): every argparse action (flag strings, dest, action kind, type, choices)
  * mypy.options.Options(): attribute names + default values (the config parser's own type source)
  * mypy.config_parser.ini_config_types / toml_config_types: keys with explicit converters
  * mypy.options.PER_MODULE_OPTIONS
  * docs/source/config_file.rst: `.. confval::` blocks (":type:", "may only be set in the global section")

An *option* is a group of names that are linked because a flag's dest, a flag's own name
(dashes -> underscores, "flags correspond closely to command-line flags") or a config key coincide.
Whether a given source can really express an option is NOT decided here: the check tries the
spelling and lets mypy answer (complaint on stderr / exit 2 => "rejected", see c17_eval).
"""

from __future__ import annotations

import io
import os
import re
import sys
from typing import Any

REPO = "/repo"
SPECIAL = "special-opts:"


def _flag_us(s: str) -> str:
    return s.lstrip("-").replace("-", "_")


def parse_docs() -> dict[str, dict[str, Any]]:
    import mypy

    top = os.path.dirname(os.path.dirname(os.path.abspath(mypy.__file__)))  # the tree under test
    path = os.path.join(top, "docs", "source", "config_file.rst")
    if not os.path.exists(path):
        path = os.path.join(REPO, "docs", "source", "config_file.rst")
    out: dict[str, dict[str, Any]] = {}
    if not os.path.exists(path):
        return out
    lines = open(path, encoding="utf-8").read().split("\n")
    glob_re = re.compile(r"may\s+only\s+be\s+set\s+in\s+the\s+global\s+section")
    section_global = False  # "These options may only be set in the global section" in a section preamble
    i = 0
    while i < len(lines):
        ln = lines[i]
        if i + 1 < len(lines) and re.fullmatch(r"[*=\-~^]{3,}", lines[i + 1].strip() or "x") and ln.strip():
            # a section title: its preamble runs until the first confval
            j = i + 2
            pre = []
            while j < len(lines) and not lines[j].startswith(".. confval::"):
                if j + 1 < len(lines) and re.fullmatch(r"[*=\-~^]{3,}", lines[j + 1].strip() or "x") and lines[j].strip():
                    break
                pre.append(lines[j])
                j += 1
            section_global = bool(re.search(r"These options " + glob_re.pattern, " ".join(pre)))
            i += 2
            continue
        if ln.startswith(".. confval:: "):
            names = [n.strip() for n in ln[len(".. confval:: "):].split(" / ")]
            body = []
            j = i + 1
            while j < len(lines) and (not lines[j].strip() or lines[j].startswith((" ", "\t"))):
                body.append(lines[j])
                j += 1
            text = "\n".join(body)
            m = re.search(r":type:\s*(.+)", text)
            for name in names:
                out[name] = {
                    "type": m.group(1).strip() if m else None,
                    "global_only": section_global or bool(glob_re.search(text)),
                }
            i = j
            continue
        i += 1
    return out


def build_table() -> dict[str, Any]:
    import mypy.config_parser as cp
    import mypy.main as mm
    from mypy import defaults
    from mypy.errorcodes import error_codes
    from mypy.options import INCOMPLETE_FEATURES, PER_MODULE_OPTIONS, Options

    parser, strict_names, strict_assign = mm.define_options(stdout=io.StringIO(), stderr=io.StringIO())
    defaults_obj = Options()
    attrs = defaults_obj.snapshot()
    docs = parse_docs()

    # ---- 1. groups from argparse
    groups: list[dict[str, Any]] = []
    by_dest: dict[str, dict[str, Any]] = {}
    for a in parser._actions:
        cls = type(a).__name__
        if cls in ("_HelpAction", "CapturableVersionAction", "_VersionAction"):
            continue
        dest = a.dest[len(SPECIAL):] if a.dest.startswith(SPECIAL) else a.dest
        dest = dest.replace("-", "_")
        if cls == "_StoreTrueAction":
            act = "true"
        elif cls == "_StoreFalseAction":
            act = "false"
        elif cls == "_CountAction":
            act = "count"
        elif cls == "_AppendAction":
            act = "append"
        elif cls == "_StoreAction":
            act = "store"
        else:
            act = "other:" + cls
        tname = getattr(a.type, "__name__", None) if a.type else None
        flag = {
            "strings": list(a.option_strings),
            "action": act,
            "type": tname,
            "choices": list(a.choices) if a.choices else None,
            "nargs": a.nargs,
            "special": a.dest.startswith(SPECIAL),
            # shapes the harness knows how to write on a command line
            "supported": (act in ("true", "false", "count") and a.nargs == 0)
            or (act in ("store", "append") and a.nargs is None)
            or (act == "store" and a.nargs == "*" and not a.option_strings),
        }
        g = by_dest.get(dest)
        if g is None:
            g = {"dests": {dest}, "names": {dest}, "flags": [], "flag_names": {}}
            by_dest[dest] = g
            groups.append(g)
        g["flags"].append(flag)
        for s in a.option_strings:
            if s.startswith("--"):
                n = _flag_us(s)
                g["names"].add(n)
                g["flag_names"][n] = flag

    # ---- 2. names known to the config side
    config_names = set(cp.ini_config_types) | set(cp.toml_config_types) | set(attrs) | set(docs)
    for n in sorted(config_names):
        hit = [g for g in groups if n in g["names"]]
        if not hit:
            g = {"dests": set(), "names": {n}, "flags": [], "flag_names": {}}
            groups.append(g)
    # merge groups that share a name (e.g. flag --no-site-packages [dest no_executable] and the
    # config key / Options attribute no_site_packages)
    merged: list[dict[str, Any]] = []
    for g in groups:
        tgt = None
        for m in merged:
            if m["names"] & g["names"]:
                tgt = m
                break
        if tgt is None:
            merged.append(g)
        else:
            tgt["dests"] |= g["dests"]
            tgt["names"] |= g["names"]
            tgt["flags"] += g["flags"]
            tgt["flag_names"].update(g["flag_names"])

    # ---- 3. per group: canonical name, kind, spellings, value domain
    codes = sorted(error_codes)
    default_on = [c for c in codes if error_codes[c].default_enabled]
    default_off = [c for c in codes if not error_codes[c].default_enabled]
    vmin = ".".join(map(str, defaults.PYTHON3_VERSION_MIN))
    vcur = ".".join(map(str, sys.version_info[:2]))
    table: dict[str, Any] = {}
    for g in merged:
        names = g["names"]
        attr_names = sorted(n for n in names if n in attrs)
        direct = set(g["dests"]) | {n for n in names if n in config_names}
        # canonical name: the Options attribute a flag writes to, else any attribute, else a dest
        cand = [d for d in sorted(g["dests"]) if d in attrs] or attr_names or sorted(g["dests"]) or sorted(names)
        name = cand[0]
        attr = name if name in attrs else None
        flags = g["flags"]
        acts = {f["action"] for f in flags}
        # kind
        if flags:
            if acts <= {"true", "false"}:
                kind = "bool"
            elif "count" in acts:
                kind = "count"
            elif "append" in acts or any(f["nargs"] == "*" for f in flags):
                kind = "list"
            elif any(f["choices"] for f in flags):
                kind = "choice"
            elif any(f["type"] == "int" for f in flags):
                kind = "int"
            elif any(f["type"] == "parse_version" for f in flags):
                kind = "version"
            else:
                kind = "str"
        else:
            kind = "unknown"
            conv = None
            for n in sorted(direct):
                conv = cp.ini_config_types.get(n)
                if conv is not None:
                    break
            dv = attrs.get(name) if attr else None
            if conv is bool or isinstance(dv, bool):
                kind = "bool"
            elif conv is not None:
                try:
                    probe = conv("A1")
                except Exception:
                    probe = None
                kind = "list" if isinstance(probe, list) else "str" if isinstance(probe, str) else "unknown"
            elif isinstance(dv, int):
                kind = "int"
            elif isinstance(dv, str):
                kind = "str"
            elif isinstance(dv, list):
                kind = "list"
        # config-key spellings: (key, polarity); polarity -1 = boolean value is written inverted
        keys: dict[str, int] = {}
        for n in sorted(direct):
            keys[n] = +1
        for n, f in sorted(g["flag_names"].items()):
            pol = -1 if f["action"] == "false" else +1
            keys.setdefault(n, pol)
        if kind == "bool" and attr:
            # "Options that take a boolean value may be inverted by adding no_ to their name or by
            #  (when applicable) swapping their prefix from disallow to allow (and vice versa)."
            inv = ["no_" + attr]
            if attr.startswith("disallow_"):
                inv.append(attr[3:])
            if attr.startswith("allow_"):
                inv.append("dis" + attr)
            for n in inv:
                keys.setdefault(n, -1)
        # value domain (small; by kind; validity-constrained lists asked from mypy)
        if kind == "bool":
            domain: list[Any] = [True, False]
        elif kind == "count":
            domain = [1, 2]
        elif kind == "int":
            domain = [0, 1, 2]
        elif kind == "choice":
            domain = sorted({c for f in flags for c in (f["choices"] or [])})
        elif kind == "version":
            domain = [vmin, vcur] if vmin != vcur else [vcur]
        elif kind == "str":
            domain = ["v1", "d2/v2"]
        elif kind == "list":
            if name == "enable_error_code":
                domain = [default_off[:1], default_off[:2]]
            elif name == "disable_error_code":
                domain = [default_on[:1], default_on[:2]]
            elif name == "enable_incomplete_feature":
                feats = sorted(INCOMPLETE_FEATURES)
                domain = [feats[:1], feats[:2]] if len(feats) > 1 else [feats[:1]]
            else:
                domain = [["A1"], ["A1", "B2"]]
        else:
            domain = []
        is_target = any(f["special"] and (not f["strings"] or set(g["dests"]) & {"modules", "packages", "files"}) for f in flags)
        if is_target and kind == "list":
            # what to check must exist in the scratch tree (mc/c17_eval.workdir): the only domain that
            # cannot be derived from mypy itself
            domain = {"files": [["t.py"], ["t.py", "u.py"]], "modules": [["t"], ["t", "u"]],
                      "packages": [["a"], ["a", "pkg2"]]}.get(name, domain)
        doc_entries = {n: docs[n] for n in sorted(names) if n in docs}
        doc_type = next((d["type"] for d in doc_entries.values() if d["type"]), None)
        table[name] = {
            "name": name,
            "attr": attr,
            "names": sorted(names),
            "kind": kind,
            "flags": flags,
            "keys": keys,
            "domain": domain,
            "default": _canon_default(attrs.get(name)) if attr else None,
            "per_module": bool(attr and attr in PER_MODULE_OPTIONS),
            "documented": bool(doc_entries),
            "doc_global_only": any(d["global_only"] for d in doc_entries.values()),
            "doc_type": doc_type,
            "ini_multi": bool(doc_type and "comma-separated list" in doc_type),
            "target": is_target,
            "strict_flag": any(name == d for d, _ in strict_assign),
        }
    return table


def _canon_default(v: Any) -> Any:
    if isinstance(v, (bool, int, str, type(None))):
        return v
    if isinstance(v, (list, tuple)):
        return [_canon_default(x) for x in v]
    return repr(v)


# --------------------------------------------------------------------------- value encoders


def flag_argvs(opt: dict[str, Any], value: Any) -> list[tuple[str, list[str]]]:
    """Every way the command line can say option=value: [(spelling label, argv fragment)]."""
    out: list[tuple[str, list[str]]] = []
    kind = opt["kind"]
    for f in opt["flags"]:
        if not f["supported"]:
            continue
        strings = f["strings"]
        if not strings:  # positional
            if kind == "list":
                out.append(("<positional>", [str(x) for x in value]))
            continue
        for s in strings:
            if f["action"] == "true":
                if value is True:
                    out.append((s, [s]))
            elif f["action"] == "false":
                if value is False:
                    out.append((s, [s]))
            elif f["action"] == "count":
                out.append((s, [s] * int(value)))
            elif f["action"] == "append":
                argv: list[str] = []
                for x in value:
                    argv += [s, str(x)]
                out.append((s, argv))
            elif f["action"] == "store":
                out.append((s, [s, str(value)]))
    return out


def ini_literal(opt: dict[str, Any], value: Any, pol: int) -> str | None:
    kind = opt["kind"]
    if kind == "bool":
        return str(value if pol > 0 else not value)
    if pol < 0:
        return None
    if kind == "list":
        if len(value) > 1 and not opt["ini_multi"]:
            return None  # the docs do not promise a comma-separated list for this option in ini files
        return ", ".join(value)
    return str(value)


def toml_literals(opt: dict[str, Any], value: Any, pol: int) -> list[tuple[str, str]]:
    """[(encoding label, TOML literal)]"""
    kind = opt["kind"]

    def q(s: str) -> str:
        return '"' + s.replace("\\", "\\\\").replace('"', '\\"') + '"'

    if kind == "bool":
        return [("bool", "true" if (value if pol > 0 else not value) else "false")]
    if pol < 0:
        return []
    if kind in ("int", "count"):
        return [("int", str(value))]
    if kind == "list":
        out = [("array", "[" + ", ".join(q(x) for x in value) + "]")]
        if len(value) == 1 or opt["ini_multi"]:
            out.append(("string", q(", ".join(value))))
        return out
    return [("string", q(str(value)))]


def inline_texts(opt: dict[str, Any], key: str, value: Any, pol: int) -> list[tuple[str, str]]:
    """[(label, text after '# mypy: ')]; hyphens may replace underscores; '= True' may be omitted;
    values containing a comma go inside quotes (docs/source/inline_config.rst)."""
    lit = ini_literal(opt, value, pol)
    if lit is None:
        return []
    if "," in lit:
        lit = '"' + lit.replace(" ", "") + '"' if opt["kind"] == "list" else '"' + lit + '"'
    out = [(key, f"{key}={lit}")]
    dashed = key.replace("_", "-")
    if dashed != key:
        out.append((dashed, f"{dashed}={lit}"))
    if opt["kind"] == "bool" and lit == "True":
        out.append((dashed + "<bare>", dashed))
    return out


if __name__ == "__main__":
    t = build_table()
    for k, v in sorted(t.items()):
        print(k, v["kind"], "attr" if v["attr"] else "-", "pm" if v["per_module"] else "", "doc" if v["documented"] else "",
              "G" if v["doc_global_only"] else "", [f["strings"] for f in v["flags"]], v["keys"], v["domain"][:2], v["doc_type"])
    print(len(t))
