"""C05 helper: type-check filter, mypyc builds (all layouts) and driver subprocess handling.

The compile step is mc.c15_build.build (mypycify + `setup.py build_ext --inplace` in a scratch directory,
PYTHONPATH=/repo, so /repo's working tree incl. mypyc/lib-rt is what gets compiled).  That helper builds
one module `c15mod` as a single group; for the other layouts its setup.py template is swapped for one
passing multi_file / separate (and further modules) to mypycify - in a forked child, so the helper module
itself stays untouched.
"""

from __future__ import annotations

import json
import os
import re
import shutil
import subprocess
import sys
import time
from typing import Any

from mc import c15_build
from mc.kernel import run_isolated
from mc.c05_gen import module_source, strip

MODNAME = c15_build.MODNAME
LAYOUTS = ("single", "multi_file", "separate")

SETUP_LAYOUT = """\
from setuptools import setup
from mypyc.build import mypycify

setup(name='c05_build',
      ext_modules=mypycify([{files}], opt_level='{{opt}}', debug_level='0', strip_asserts=False,
                           multi_file={multi_file}, separate={separate}))
"""

_ERR = re.compile(r"^(?P<file>[\w./-]+\.py):(?P<line>\d+)(?::\d+)?: error: (?P<msg>.*)$")


# --------------------------------------------------------------------------- type-check filter


def typecheck(dirpath: str, files: list[str]) -> list[tuple[str, int, str]]:
    """Errors of a plain mypy run (same option processing as mypyc.build.get_mypy_config) over the files:
    [(file, line, message)].  Must run in a fresh process (mypy global state)."""
    from mypy import build as mbuild
    from mypy.errors import CompileError
    from mypy.fscache import FileSystemCache
    from mypy.main import process_options

    old = os.getcwd()
    os.chdir(dirpath)
    try:
        fscache = FileSystemCache()
        sources, options = process_options(list(files), fscache=fscache, mypyc=True)
        options.python_version = sys.version_info[:2]
        options.incremental = False
        options.show_traceback = True
        try:
            res = mbuild.build(sources, options, fscache=fscache)
            msgs = res.errors
        except CompileError as e:
            msgs = e.messages
    finally:
        os.chdir(old)
    out = []
    for m in msgs:
        mm = _ERR.match(m)
        if mm:
            out.append((os.path.basename(mm.group("file")), int(mm.group("line")), mm.group("msg")))
        elif ": error:" in m:
            out.append(("?", -1, m))
    return out


def _units_at(spans: dict[str, tuple[int, int]], lines: list[int]) -> tuple[set[str], list[int]]:
    bad: set[str] = set()
    orphan = []
    for ln in lines:
        for name, (a, b) in spans.items():
            if a <= ln <= b:
                bad.add(name)
                break
        else:
            orphan.append(ln)
    return bad, orphan


# --------------------------------------------------------------------------- building one module


def _c_text(build_dir: str) -> str:
    out = []
    bd = os.path.join(build_dir, "build")
    for root, _dirs, names in os.walk(bd):
        for n in names:
            if n.endswith(".c") and n.startswith("__native"):
                with open(os.path.join(root, n), errors="replace") as f:
                    out.append(f.read())
    return "\n".join(out)


def build_module(job: dict) -> dict:
    """job = {"dir", "units", "opt", "layout", "c_names": [...], "support": {file: text} (extra modules compiled
    along, layout 'separate'), "timeout"}.  Filters the units through mypy, compiles what is left (retrying
    without units mypyc itself rejects), copies the source for the interpreter into <dir>/ref.
    Runs in a forked child of its own (see module docstring)."""
    d = job["dir"]
    bdir = os.path.join(d, "b")
    rdir = os.path.join(d, "ref")
    os.makedirs(bdir, exist_ok=True)
    os.makedirs(rdir, exist_ok=True)
    units = list(job["units"])
    support: dict[str, str] = job.get("support") or {}
    rejected: dict[str, str] = {}
    log_tail = ""
    t0 = time.time()
    t_filter = 0.0
    info: dict[str, Any] = {}
    filtering = job.get("filter", True)
    for attempt in range(6):
        text, spans = module_source(units)
        for fn, src in support.items():
            with open(os.path.join(bdir, fn), "w") as f:
                f.write(src)
        with open(os.path.join(bdir, MODNAME + ".py"), "w") as f:
            f.write(text)
        files = sorted(support) + [MODNAME + ".py"]
        if filtering:
            tf = time.time()
            errs = run_isolated(typecheck, bdir, files, timeout=job.get("timeout", 1500))
            t_filter += time.time() - tf
            mine = [e for e in errs if e[0] == MODNAME + ".py"]
            other = [e for e in errs if e[0] != MODNAME + ".py"]
            bad, orphan = _units_at(spans, [e[1] for e in mine])
            if other or orphan:
                return {"ok": False, "stage": "typecheck", "log": "\n".join(map(str, (other + mine)[:40])), "dir": d}
            if bad:
                for e in mine:
                    b, _ = _units_at(spans, [e[1]])
                    for n in b:
                        rejected.setdefault(n, "mypy: " + e[2])
                units = [u for u in units if u["name"] not in bad]
                if not units:
                    return {"ok": False, "stage": "typecheck", "log": "every unit rejected", "dir": d}
                # a blocking (syntax) error hides all others: check again without the rejected units
                filtering = any("syntax" in e[2] for e in mine)
                continue
            filtering = False
        if job["layout"] == "single" and not support:
            c15_build.SETUP = _ORIG_SETUP
        else:
            c15_build.SETUP = SETUP_LAYOUT.format(files=", ".join(repr(f) for f in files),
                                                  multi_file=job["layout"] == "multi_file",
                                                  separate=job["layout"] == "separate").replace("{{opt}}", "{opt}")
        shutil.rmtree(os.path.join(bdir, "build"), ignore_errors=True)
        c15_build.build_env = _build_env if repo_root() != "/repo" else _ORIG_ENV
        info = c15_build.build({"dir": bdir, "opt": job["opt"], "source": text, "timeout": job.get("timeout", 1500)})
        log_tail = info["log"]
        if info["ok"]:
            break
        errs2 = []
        for line in info["log"].splitlines():
            mm = _ERR.match(line.strip())
            if mm and os.path.basename(mm.group("file")) == MODNAME + ".py":
                errs2.append((int(mm.group("line")), mm.group("msg")))
        bad, orphan = _units_at(spans, [e[0] for e in errs2])
        if not bad or orphan:
            return {"ok": False, "stage": "build", "log": log_tail[-4000:], "dir": d, "rc": info["rc"]}
        for ln, msg in errs2:
            b, _ = _units_at(spans, [ln])
            for n in b:
                rejected.setdefault(n, "mypyc: " + msg)
        units = [u for u in units if u["name"] not in bad]
        if not units:
            # every candidate of this module is outside what mypyc compiles: nothing to evaluate
            return {"ok": True, "dir": d, "build_dir": bdir, "ref_dir": rdir, "modules": [], "kept": [],
                    "rejected": rejected, "seconds": info["seconds"], "filter_seconds": round(t_filter, 2),
                    "total_seconds": round(time.time() - t0, 2), "lib_rt": None, "reached": [], "c_lines": 0,
                    "opt": job["opt"], "layout": job["layout"]}
    else:
        return {"ok": False, "stage": "build", "log": "too many attempts\n" + log_tail[-3000:], "dir": d}
    # the interpreter's copy of the same source text
    for fn in files:
        shutil.copyfile(os.path.join(bdir, fn), os.path.join(rdir, fn))
    ctext = _c_text(bdir)
    reached = [c for c in job.get("c_names", []) if c and re.search(r"\b" + re.escape(c) + r"\(", ctext)]
    n_c_lines = ctext.count("\n")
    shutil.rmtree(os.path.join(bdir, "build"), ignore_errors=True)
    return {"ok": True, "dir": d, "build_dir": bdir, "ref_dir": rdir, "modules": [f[:-3] for f in files],
            "kept": [u["name"] for u in units], "rejected": rejected, "seconds": info["seconds"],
            "filter_seconds": round(t_filter, 2), "total_seconds": round(time.time() - t0, 2), "lib_rt": info["lib_rt"],
            "reached": reached, "c_lines": n_c_lines, "opt": job["opt"], "layout": job["layout"]}


_ORIG_SETUP = c15_build.SETUP
_ORIG_ENV = c15_build.build_env


def repo_root() -> str:
    """The mypy/mypyc tree that is compiled: /repo, or a scratch git worktree of it named by C05_REPO (used only
    to demonstrate that seeded defects are detected without touching /repo)."""
    return os.environ.get("C05_REPO") or "/repo"


def _build_env() -> dict[str, str]:
    env = _ORIG_ENV()
    env["PYTHONPATH"] = repo_root()
    return env


# --------------------------------------------------------------------------- running the driver


def driver_env() -> dict[str, str]:
    env = dict(os.environ)
    env["PYTHONPATH"] = "/verif"
    env["PYTHONDONTWRITEBYTECODE"] = "1"
    env["PYTHONHASHSEED"] = "0"
    env["PYTHONMALLOC"] = "debug"  # freed memory is overwritten: use-after-free shows up deterministically
    return env


def _run_driver(job: dict, jobfile: str, timeout: float) -> tuple[int, str]:
    with open(jobfile, "w") as f:
        json.dump(job, f)
    if os.path.exists(job["out"]):
        os.unlink(job["out"])
    try:
        p = subprocess.run([sys.executable, "-m", "mc.c05_driver", jobfile], env=driver_env(), cwd=job["build_dir"],
                           stdout=subprocess.PIPE, stderr=subprocess.STDOUT, timeout=timeout)
        return p.returncode, p.stdout.decode("utf8", "replace")[-3000:]
    except subprocess.TimeoutExpired:
        return -999, "TIMEOUT"


def _progress(path: str) -> tuple[str, int]:
    try:
        with open(path) as f:
            name, idx = f.read().split()
        return name, int(idx)
    except (OSError, ValueError):
        return "", -1


def run_chunk(item: dict) -> dict:
    """Evaluate units against one build in a driver subprocess; survives and localises crashes."""
    units = [strip(u) for u in item["units"]]
    base = os.path.join(item["dir"], f"chunk-{item['id']}")
    results: dict[str, Any] = {}
    crashes: list[dict] = []
    herr: list[str] = []
    attempt = 0
    while units:
        attempt += 1
        job = {"build_dir": item["build_dir"], "ref_dir": item["ref_dir"], "modules": item["modules"], "units": units,
               "progress": base + ".progress", "out": base + f".out{attempt}", "max_mismatches": 4}
        if "only" in item:
            job["only"] = item["only"]
        rc, out = _run_driver(job, base + ".job", item["timeout"])
        if rc == 0 and os.path.exists(job["out"]):
            with open(job["out"]) as f:
                results.update(json.load(f))
            break
        if rc == -999:
            name, _ = _progress(job["progress"])
            herr.append(f"driver timeout after {item['timeout']}s at unit {name!r} ({item['id']})")
            break
        name, _ = _progress(job["progress"])
        idx = next((i for i, u in enumerate(units) if u["name"] == name), None)
        if rc > 0 or idx is None:
            herr.append(f"driver failed rc={rc} at {name!r} ({item['id']}): {out[-1500:]}")
            break
        # the process died with a signal while evaluating units[idx]: find the case (trace mode)
        u = units[idx]
        tjob = dict(job, units=[u], trace=True, out=base + ".trace.out")
        trc, _tout = _run_driver(tjob, base + ".trace.job", item["timeout"])
        _n, cidx = _progress(job["progress"])
        crashes.append({"unit": u["name"], "signal": -rc, "case": cidx if trc < 0 else None,
                        "reproduced_in_trace": trc < 0})
        before, units = units[:idx], units[idx + 1:]
        if before:
            r2 = run_chunk(dict(item, units=before, id=f"{item['id']}r{attempt}"))
            results.update(r2["results"])
            crashes.extend(r2["crashes"])
            herr.extend(r2["harness_errors"])
    for suffix in (".job", ".progress", ".trace.job", ".trace.out"):
        try:
            os.unlink(base + suffix)
        except OSError:
            pass
    return {"id": item["id"], "results": results, "crashes": crashes, "harness_errors": herr}
