"""The repository's .test files as an INPUT corpus (never as an oracle).

Parsed with the repository's own `mypy.test.data.parse_test_data` (section splitting, comment and
line-continuation rules), without pytest.  A Case is: main program text, extra files, fixture
selections, `# flags:` list, tags (the repo's own opt-out suffixes).
"""

from __future__ import annotations

import glob
import os
import re
from dataclasses import dataclass, field

REPO = os.environ.get("VERIF_REPO", "/repo")
UNIT = os.path.join(REPO, "test-data", "unit")
MYPYC_DATA = os.path.join(REPO, "mypyc", "test-data")

OPT_OUT_SUFFIXES = ("-skip", "-xfail", "_no_native_parse", "_no_parallel", "_parallel_only", "-writescache",
                    "-only_when_cache", "-only_when_nocache", "-posix", "-windows", "_no_empty",
                    "_no_verbose_reveal", "-skip_path_normalization")


@dataclass
class Case:
    file: str  # e.g. check-classes.test
    name: str
    line: int
    main: str
    files: dict[str, str] = field(default_factory=dict)  # relative path (no tmp/ prefix) -> text
    flags: list[str] = field(default_factory=list)
    builtins: str | None = None  # fixtures/x.pyi
    typing: str | None = None
    typeshed: str | None = None
    tags: list[str] = field(default_factory=list)
    multi_step: bool = False  # has .2 files / delete sections / cmd lines (incremental scripts)
    has_cmd: bool = False
    expected_out: list[str] = field(default_factory=list)

    @property
    def id(self) -> str:
        return f"{self.file}::{self.name}"


_CASE_RE = re.compile(r"^\[case ([a-zA-Z_0-9\-.]+)\][ \t]*$\n", re.MULTILINE)


def split_cases(path: str) -> list[tuple[str, int, str]]:
    with open(path, encoding="utf-8") as f:
        data = f.read()
    parts = _CASE_RE.split(data)
    out = []
    line = parts[0].count("\n") + 1
    for i in range(1, len(parts), 2):
        name, body = parts[i], parts[i + 1]
        out.append((name, line, body))
        line += body.count("\n") + 1
    return out


def parse_case(file: str, name: str, line: int, body: str) -> Case:
    from mypy.test.data import expand_variables, parse_test_data

    items = parse_test_data(body, name)
    main = "\n".join(items[0].data)
    c = Case(file=os.path.basename(file), name=name, line=line, main=main)
    for suf in OPT_OUT_SUFFIXES:
        if suf in name:
            c.tags.append(suf.lstrip("-_"))
    for it in items[1:]:
        if it.id == "file" and it.arg:
            c.files[it.arg] = expand_variables("\n".join(it.data))
            if re.search(r"\.\d+$", it.arg):
                c.multi_step = True
        elif it.id == "builtins":
            c.builtins = it.arg
        elif it.id == "typing":
            c.typing = it.arg
        elif it.id == "_typeshed":
            c.typeshed = it.arg
        elif it.id in ("delete", "triggered") or re.match(r"(stale|rechecked|targets|out)\d+$", it.id):
            c.multi_step = True
        elif it.id == "out":
            c.expected_out = list(it.data)
    m = re.search(r"# flags: (.*)$", main, flags=re.MULTILINE)
    if m:
        c.flags = m.group(1).split()
    if re.search(r"# cmd\d*: ", main) or re.search(r"# flags\d+: ", main):
        c.has_cmd = True
    return c


def load_file(path: str) -> list[Case]:
    return [parse_case(path, n, l, b) for n, l, b in split_cases(path)]


def files_matching(pattern: str = "check-*.test", base: str = UNIT) -> list[str]:
    return sorted(glob.glob(os.path.join(base, pattern)))


def materialize(case: Case, root: str, main_name: str = "main.py", main_text: str | None = None) -> list[str]:
    """Write the case into `root` (flat layout: extra files relative to root, fixtures as
    builtins.pyi / typing.pyi next to them).  Returns the list of written relative paths."""
    written = []

    def w(rel: str, text: str) -> None:
        p = os.path.join(root, rel)
        os.makedirs(os.path.dirname(p) or root, exist_ok=True)
        with open(p, "w", encoding="utf-8", newline="") as f:
            f.write(text)
        written.append(rel)

    w(main_name, (case.main if main_text is None else main_text) + "\n")
    for rel, text in case.files.items():
        w(rel, text + "\n")
    for attr, target in (("builtins", "builtins.pyi"), ("typing", "typing.pyi"), ("typeshed", "_typeshed.pyi")):
        fx = getattr(case, attr)
        if fx:
            with open(os.path.join(UNIT, fx), encoding="utf-8") as f:
                w(target, f.read())
    return written


def pyversion_for(file: str) -> tuple[int, int] | None:
    """Mirror of mypy.test.helpers.testfile_pyversion (version implied by the file name)."""
    m = re.search(r"python3(\d+)\.test$", file)
    if m:
        return (3, int(m.group(1)))
    return None
