"""C17 reference oracle: a direct transcription of docs/source/config_file.rst ("config-precedence").

Deliberately boring: no regexes, no knowledge of mypy's data structures.  Quoted rules:

  * "A pattern of the form qualified_module_name matches only the named module, while
    dotted_module_name.* matches dotted_module_name and any submodules."
  * "Patterns may also be "unstructured" wildcards, in which stars may appear in the middle of a
    name (e.g site.*.migrations.*).  Stars match zero or more module components (so
    site.*.migrations.* can match site.migrations)."
  * "When options conflict, the precedence order for configuration is:
       1. Inline configuration in the source file
       2. Sections with concrete module names (foo.bar)
       3. Sections with "unstructured" wildcard patterns (foo.*.baz), with sections later in the
          configuration file overriding sections earlier.
       4. Sections with "well-structured" wildcard patterns (foo.bar.*), with more specific
          overriding more general.
       5. Command line options.
       6. Top-level configuration file options."
"""

from __future__ import annotations

from functools import lru_cache
from typing import Any, Callable, Sequence

INLINE, CONCRETE, UNSTRUCTURED, STRUCTURED, CMDLINE, GLOBAL = 1, 2, 3, 4, 5, 6
LEVEL_NAMES = {1: "inline", 2: "concrete", 3: "unstructured", 4: "structured", 5: "cmdline", 6: "global"}


@lru_cache(maxsize=None)
def doc_matches(pattern: str, module: str) -> bool:
    """Stars match zero or more module components; every other component matches itself."""

    def rec(p: Sequence[str], m: Sequence[str]) -> bool:
        if not p:
            return not m
        if p[0] == "*":
            return any(rec(p[1:], m[i:]) for i in range(len(m) + 1))
        return bool(m) and p[0] == m[0] and rec(p[1:], m[1:])

    return rec(pattern.split("."), module.split("."))


def section_level(pattern: str) -> int:
    comps = pattern.split(".")
    if "*" not in comps:
        return CONCRETE
    if len(comps) > 1 and comps[-1] == "*" and "*" not in comps[:-1]:
        return STRUCTURED  # dotted_module_name.*
    return UNSTRUCTURED


def doc_winner(settings: Sequence[dict], module: str, matches: Callable[[str, str], bool] = doc_matches) -> Any:
    """Which of `settings` decides an option for `module`?

    settings: dicts {"level": 1..6, "pattern": str (levels 2-4), "pos": file position (levels 2-4),
    "id": anything}; only sources that SET the option are listed.  Returns the winning "id", or None
    when no listed source applies to the module (the default stays).
    `matches` is the pattern/module relation (the documented one unless a caller substitutes the
    relation it observed, to tell a matching discrepancy from an ordering discrepancy).
    """
    live = [s for s in settings if s["level"] in (INLINE, CMDLINE, GLOBAL) or matches(s["pattern"], module)]
    if not live:
        return None
    top = min(s["level"] for s in live)
    cands = [s for s in live if s["level"] == top]
    if top == UNSTRUCTURED:
        cands.sort(key=lambda s: s["pos"])  # later in the file overrides earlier
    elif top == STRUCTURED:
        cands.sort(key=lambda s: len(s["pattern"].split(".")))  # more specific overrides more general
    return cands[-1]["id"]
