"""C14 detection demonstrations: property-breaking changes applied by monkey-patching (no edit of /repo).

    cd /verif && PYTHONPATH=/verif:/repo PYTHONHASHSEED=0 /venv/bin/python -m mc.c14_demo <name> [phase,phase] [family,family|all]

(default: the grammar phase restricted to the depth-1 and type families, ~40 CPU seconds; `corpus,grammar,corrupt all`
is the complete quick tier under the patch)

names:
  none                 unchanged tree (baseline signatures of the same restricted run)
  readloc-call-end     nativeparse.read_loc: end column - 1 for CallExpr nodes
  no-implicit-optional nativeparse.read_parameters: the implicit-Optional bit is not applied by the native path
  native-line-plus1    nativeparse.read_loc: line + 1 for IntExpr nodes (a strength-1 difference)
  fast-col-plus1       fastparse.ASTConverter.set_line: column + 1 for NameExpr (default parser side)
  native-eof-column    parse.report_parse_error: column + 200 (position validity of native syntax errors)
Prints the signatures the restricted run reports that the baseline run of the same restriction does not.
"""

from __future__ import annotations

import inspect
import sys
import textwrap


def rewrite_function(module, name: str, old: str, new: str) -> None:
    """Re-compile `module.name` from its source with `old` replaced by `new` (in the module's own globals)."""
    fn = getattr(module, name)
    src = textwrap.dedent(inspect.getsource(fn))
    assert old in src, (name, old)
    ns: dict = {}
    exec(compile(src.replace(old, new), f"<patched {name}>", "exec"), module.__dict__, ns)
    setattr(module, name, ns[name])


def apply(name: str) -> None:
    import mypy.fastparse as fp
    import mypy.nativeparse as np
    import mypy.nodes as nodes
    import mypy.parse as pp

    if name == "none":
        return
    if name == "readloc-call-end":
        orig = np.read_loc

        def read_loc(data, node):  # type: ignore[no-untyped-def]
            orig(data, node)
            if isinstance(node, nodes.CallExpr):
                node.end_column -= 1

        np.read_loc = read_loc
    elif name == "native-line-plus1":
        orig = np.read_loc

        def read_loc2(data, node):  # type: ignore[no-untyped-def]
            orig(data, node)
            if isinstance(node, nodes.IntExpr):
                node.line += 1
                node.end_line += 1

        np.read_loc = read_loc2
    elif name == "no-implicit-optional":
        rewrite_function(np, "read_parameters", "if state.options.implicit_optional and ann is not None:",
                         "if False and state.options.implicit_optional and ann is not None:")
    elif name == "fast-col-plus1":
        orig_set = fp.ASTConverter.set_line

        def set_line(self, node, n):  # type: ignore[no-untyped-def]
            r = orig_set(self, node, n)
            if isinstance(node, nodes.NameExpr):
                node.column += 1
            return r

        fp.ASTConverter.set_line = set_line
    elif name == "native-eof-column":
        orig_rep = pp.report_parse_error

        def report_parse_error(error, errors):  # type: ignore[no-untyped-def]
            e = dict(error)
            e["column"] = e["column"] + 200
            orig_rep(e, errors)

        pp.report_parse_error = report_parse_error
    else:
        raise SystemExit(f"unknown demo {name}")


def main() -> None:
    from mc.checks import c14
    from mc.common import Ctx

    name = sys.argv[1]
    phases = tuple(sys.argv[2].split(",")) if len(sys.argv) > 2 else ("grammar",)
    families = (None if sys.argv[3] == "all" else tuple(sys.argv[3].split(","))) if len(sys.argv) > 3 else ("S", "E", "P", "TxA")
    c14.L.preload()
    apply(name)
    res = c14.run(Ctx("quick", 0), phases=phases, families=families)
    sigs = res.coverage["signatures"]
    print(f"DEMO {name}: {len(sigs)} signatures, {res.coverage['build_pairs']} build pairs, {res.coverage['parse_entry_pairs']} parse pairs")
    for s, n in sorted(sigs.items()):
        print(f"SIG\t{n}\t{s}")
    first = {}
    for v in res.violations:
        first.setdefault(v.signature, v)
    for s, v in sorted(first.items()):
        print(f"EX\t{s}\t{v.what[:300]}")


if __name__ == "__main__":
    main()
