"""C06 generated families, second generation (both are finite products, enumerated completely).

1. Multi-steal family (`ms_*`): every source construct that reaches an IR op which *steals* operands
   (ops.py `stolen()`: Assign, Return, SetAttr, TupleSet, Box, Cast, SetMem, KeepAlive(steal), CallC/PrimitiveOp with
   `steals=`: CPyList_Build, CPyList_SetItem, buf_init_item/CPyList_SetItemUnsafe, CPySequenceTuple_SetItemUnsafe,
   CPyStr_Append ...) plus the multi-operand ops that do not steal (set/dict displays, calls) as controls

       construct  x  operand shape (which slots hold the SAME value x, which hold another value y)
                  x  provenance of x (borrowed argument, reassigned argument, owned local dead/live afterwards,
                     attribute load inline / into a local, literal, short int, big int, native instance, str, tuple)

   All functions share the conformance signature and are net neutral; k = 0 returns the built object, k = 1
   raises after it was built (error path with the container alive).

2. Nested protected-region family for definedness (`nr_*`):

       outer region(s)  x  inner try/except | try/finally  x  where the local is first assigned
                        x  who reads it  x  is there a non-trivial statement of the outer region before the inner try
                        x  local type (object / int / i64)

   run for every raise point p in {none, pre-statement, first statement of the inner try, later statement}.
   Oracle: CPython (value vs UnboundLocalError vs propagated Err).
"""

from __future__ import annotations

import itertools
import textwrap

from mc.c06_gen import PRELUDE, SIG

# --------------------------------------------------------------------------- multi-steal family

def _without(text: str, names: list[str]) -> str:
    """Drop top-level definitions (the generators that carry recorded findings are not needed here)."""
    out = []
    skip = False
    for line in text.splitlines(keepends=True):
        if line.startswith("def ") or line.startswith("class "):
            skip = any(line.startswith(f"def {n}(") for n in names)
        if not skip:
            out.append(line)
    return "".join(out)


MS_PRELUDE = _without(PRELUDE, ["gen_temp", "gen_lit"]).replace("from typing import ", "from typing import Final, ") + '''\
FX: Final = T('fx')
GX = T('gx')


class Pair:
    def __init__(self, p: object, q: object) -> None:
        self.p = p
        self.q = q


def keep(o: object) -> None:
    pass


'''

# provenance -> (setup lines defining x, expression used in every slot, lines run after the construct, type tag)
# `y` (the other value) is always a fresh owned local that is dead after the construct, so that both values of a mixed
# shape are refcount-sensitive; thorough adds other provenances for y.
PROVENANCE: dict[str, tuple[list[str], str, list[str]]] = {
    "arg": ([], "a", []),
    "argre": (["if k > 5:", "    a = b"], "a", []),
    "dead": (["x: object = T('x')"], "x", []),
    "live": (["x: object = T('x')"], "x", ["keep(x)"]),
    "attr": ([], "bx.item", []),
    "attrloc": (["x = bx.item"], "x", []),
    "lit": ([], "'c06-literal'", []),
    "int": (["x = k + 1000"], "x", []),
    "big": (["x = k + 10 ** 20"], "x", []),
    "box": (["x = Box(a)"], "x", []),
    "str": (["x = str(k + 1000)"], "x", []),
    "flt": (["x = k + 0.5"], "x", []),
    "opt": (["x: Optional[Box] = None", "if k < 9:", "    x = Box(a)"], "x", []),
    "final": ([], "FX", []),
    "glob": ([], "GX", []),
    # a value-type tuple is boxed anew for every slot (no identity: excluded from the result census)
    "rtup": (["x = (a, T('x'))"], "x", []),
}
Y_PROVENANCE: dict[str, tuple[list[str], str]] = {
    "dead": (["y: object = T('y')"], "y"),
    "arg": ([], "b"),
    "lit": ([], "'c06-y-literal'"),
}
UNHASHABLE: set[str] = set()

SHAPES1 = ["x"]
SHAPES2 = ["xx", "xy", "yx"]
SHAPES3 = ["xxx", "xxy", "xyx", "yxx", "xyy", "yxy", "yyx"]


def _shape_n(n: int, pos: tuple[int, ...]) -> str:
    return "".join("x" if i in pos else "y" for i in range(n))


def _long_shapes(n: int, thorough: bool) -> list[str]:
    """x in every non-empty subset of {first, middle, last} (thorough: of {0, 1, middle, n-2, n-1}), all x, and the
    dense shape x x x y x x x y x x ..."""
    anchors = (0, 1, n // 2 - 1, n - 2, n - 1) if thorough else (0, n // 2 - 1, n - 1)
    out = [_shape_n(n, p) for m in range(1, len(anchors) + 1) for p in itertools.combinations(anchors, m)]
    out += ["x" * n, "".join("y" if i % 4 == 3 else "x" for i in range(n))]
    seen: set[str] = set()
    return [sh for sh in out if not (sh in seen or seen.add(sh))]  # type: ignore[func-returns-value]


def _join(s: list[str]) -> str:
    return ", ".join(s)


# construct -> (number of slots, function(slots) -> body lines; the body must leave the built object in `res`)
CONSTRUCTS: dict[str, tuple[int, object]] = {
    # CPyList_Build (one op stealing every argument) at and above the threshold of 10 leading items
    "list10": (10, lambda s: [f"res: object = [{_join(s)}]"]),
    "liststar": (10, lambda s: [f"res: object = [{_join(s)}, *xs]"]),
    "list11": (11, lambda s: [f"res: object = [{_join(s)}]"]),
    # just below the threshold
    "list9": (9, lambda s: [f"res: object = [{_join(s)}]"]),
    # below the threshold: PyList_New + one stealing store per slot
    "list3": (3, lambda s: [f"res: object = [{_join(s)}]"]),
    "starlist": (3, lambda s: [f"res: object = [*xs, {_join(s)}]"]),
    # TupleSet (steals every item) + Box
    "tuple3": (3, lambda s: [f"res: object = ({_join(s)})"]),
    "tuple10": (10, lambda s: [f"res: object = ({_join(s)})"]),
    "tuplestar": (3, lambda s: [f"res: object = (*xs, {_join(s)})"]),
    "tupvar": (3, lambda s: [f"tv: Tuple[object, ...] = ({_join(s)})", "res: object = tv"]),
    # multi-operand, not stealing (controls for the same transform loop)
    "set3": (3, lambda s: [f"res: object = {{{_join(s)}}}"]),
    "dict3": (3, lambda s: [f"res: object = {{'p': {s[0]}, 'q': {s[1]}, 'r': {s[2]}}}"]),
    "dictk": (2, lambda s: [f"res: object = {{{s[0]}: 1, {s[1]}: 2}}"]),
    "call3": (3, lambda s: [f"res: object = (va(0, {_join(s)}), va(2, {_join(s)}))"]),
    "callkw": (2, lambda s: [f"res: object = kw(None, y={s[0]}, z={s[1]})"]),
    "ctor": (2, lambda s: [f"res: object = Pair({s[0]}, {s[1]})"]),
    # one stealing op per statement, same value in consecutive statements
    "setattr2": (2, lambda s: ["nb = Pair(None, None)", f"nb.p = {s[0]}", f"nb.q = {s[1]}", "res: object = nb"]),
    "setitem2": (2, lambda s: ["ys: List[object] = [None, None]", f"ys[0] = {s[0]}", f"ys[k - 1] = {s[1]}",
                               "res: object = ys"]),
    "append2": (2, lambda s: ["ys: List[object] = []", f"ys.append({s[0]})", f"ys.append({s[1]})", "res: object = ys"]),
    "assign2": (2, lambda s: [f"p: object = {s[0]}", f"q: object = {s[1]}", "if k > 5:", "    p = q",
                              "res: object = [p, q]"]),
    "unpack2": (2, lambda s: [f"p, q = {s[0]}, {s[1]}", "res: object = [q, p]"]),
    "swap": (2, lambda s: [f"p: object = {s[0]}", f"q: object = {s[1]}", "p, q = q, p", "res: object = [p, q, p]"]),
    "cond": (2, lambda s: [f"res: object = {s[0]} if k == 0 else {s[1]}"]),
    "mult": (2, lambda s: [f"res: object = [{s[0]}, {s[1]}] * 2"]),
    "raise2": (2, lambda s: ["res: object = None", "try:", f"    raise Err({s[0]}, {s[1]})", "except Err as e:",
                             "    res = e.args"]),
    "comp": (1, lambda s: [f"res: object = [{s[0]} for _i in range(3)]"]),
    "ret": (1, lambda s: [f"res: object = {s[0]}"]),
    "gen2": (2, lambda s: [f"res: object = list(gen([{s[0]}, {s[1]}]))"]),
    "method": (2, lambda s: ["nb2 = Box(None)", f"o1 = nb2.swap({s[0]})", f"o2 = nb2.swap({s[1]})",
                             "res: object = [o1, o2, nb2]"]),
}
STR_ONLY = {
    # CPyStr_Append steals its FIRST argument only; s += s uses the same value stolen and not stolen
    "stradd": (2, lambda s: [f"st = {s[0]}", f"st += {s[1]}", "res: object = st"]),
    "stradd3": (2, lambda s: [f"st = {s[0]}", f"st += {s[1]}", f"st += {s[0]}", "res: object = [st, st]"]),
}


def _shapes(n: int, thorough: bool) -> list[str]:
    if n == 1:
        return SHAPES1
    if n == 2:
        return SHAPES2
    if n == 3:
        return SHAPES3
    return _long_shapes(n, thorough)


def ms_functions(thorough: bool = False) -> list[dict]:
    """The whole product as a list of {name, construct, prov, yprov, shape, source}; order = simplest first."""
    out = []
    yprovs = list(Y_PROVENANCE) if thorough else ["dead", "arg"]
    for cname, (n, mk) in list(CONSTRUCTS.items()) + list(STR_ONLY.items()):
        for prov, (setup, xexpr, after) in PROVENANCE.items():
            if cname in STR_ONLY and prov not in ("str", "lit"):
                continue
            for yprov in yprovs:
                ysetup, yexpr = Y_PROVENANCE[yprov]
                if cname in STR_ONLY:
                    ysetup, yexpr = ["y = str(k + 2000)"], "y"
                    if yprov != "dead":
                        continue
                for shape in _shapes(n, thorough):
                    if "y" not in shape and yprov != "dead":
                        continue  # y unused: one representative
                    slots = [xexpr if c == "x" else yexpr for c in shape]
                    name = f"ms_{cname}_{prov}_{yprov}_{shape if n < 9 else _enc10(shape)}"
                    body = list(setup) + (list(ysetup) if "y" in shape else []) + mk(slots) + list(after)
                    body += ["raiser(k, a)", "return res"]
                    src = f"def {name}{SIG}:\n" + textwrap.indent("\n".join(body), "    ") + "\n"
                    out.append({"name": name, "construct": cname, "prov": prov, "yprov": yprov, "shape": shape,
                                "nk": 2, "census": prov != "rtup", "source": src})
    return out


def _enc10(shape: str) -> str:
    return "p" + "".join("0123456789ab"[i] for i, c in enumerate(shape) if c == "x")


def assemble(prelude: str, specs: list[dict]) -> str:
    return prelude + "\n\n".join(f["source"] for f in specs) + "\n"


def ms_modules(thorough: bool, n_modules: int) -> list[tuple[str, str, list[dict]]]:
    """Round-robin the product over n modules (every module sees every construct): (module name, prelude, specs);
    the module text is assemble(prelude, specs)."""
    fns = ms_functions(thorough)
    out = []
    for i in range(n_modules):
        out.append((f"c06ms{i}", MS_PRELUDE, fns[i::n_modules]))
    return out


# --------------------------------------------------------------------------- nested protected regions

NR_PRELUDE = '''\
from mypy_extensions import i64

from c06trk import CM


class Err(Exception):
    pass


def note(c: bool) -> None:
    if c:
        raise Err()


def mk_obj(c: bool, x: object) -> object:
    if c:
        raise Err()
    return x


def mk_int(c: bool, x: int) -> int:
    if c:
        raise Err()
    return x


def mk_i64(c: bool, x: i64) -> i64:
    if c:
        raise Err()
    return x


'''

NR_TYPES = {"obj": ("a", "mk_obj"), "int": ("v", "mk_int"), "i64": ("w", "mk_i64")}
NR_OUTER = ["none", "te", "tf", "with", "exb", "fib", "loop"]
NR_INNER = ["te", "tf"]
NR_WHERE = ["B", "P", "F", "L", "H"]   # before regions / outer body before inner try / first stmt of inner try (raising)
#                                        / later stmt of inner try / only in the inner handler
NR_READ1 = ["ih", "oh", "ai", "af"]    # inner handler|finally / innermost outer handler|finally / after the inner
#                                        try inside the outer body / after everything
# reader SETS: a function in which one read needs a definedness check and another is believed safe differs from one
# with a single read (the register is initialised to the error value as soon as any read is checked)
NR_READ = NR_READ1 + ["ih+af", "ih+oh", "ai+af"]
NR_READ_T = ["+".join(c) for n in (1, 2, 3, 4) for c in itertools.combinations(NR_READ1, n)]
NR_PRE = ["n", "c"]                    # no statement / a call statement of the outer region directly before the inner try
NR_INPUTS = [0, 1, 2, 3]               # raise point: none / pre statement / first stmt of inner try / later stmt
NR_INPUTS_LOOP = [0, 1, 2, 3, 4, 5, 6]  # loop bodies: the same raise points in the first (1..3) or second (4..6) iteration


def _has_handler(o: str) -> bool:
    return o in ("te", "tf")


def nr_function(typ: str, outers: tuple[str, ...], inner: str, where: str, read: str, pre: str) -> dict | None:
    val, mk = NR_TYPES[typ]
    innermost = outers[-1]
    reads = set(read.split("+"))
    if "oh" in reads and not _has_handler(innermost):
        return None
    name = f"nr_{typ}_{'+'.join(outers)}_{inner}_{where}_{read}_{pre}".replace("+", "X")
    L: list[str] = []
    ind = 1

    def emit(s: str) -> None:
        L.append("    " * ind + s)

    emit("res: object = None")
    emit("i = 0")
    # raise flags are plain bool locals, so that a raising statement is ONE call in the basic block it starts
    # (a condition computed in place would put branches in front of the call)
    emit("c1 = p == 1")
    emit("c2 = p == 2")
    emit("c3 = p == 3")
    if where == "B":
        emit(f"x = {val}")
    closers: list[tuple[int, str]] = []
    for depth, o in enumerate(outers):
        last = depth == len(outers) - 1
        if o == "none":
            pass
        elif o in ("te", "tf"):
            emit("try:")
            ind += 1
            closers.append((ind - 1, o))
        elif o == "with":
            emit("with CM(None, 1):")
            ind += 1
        elif o == "exb":
            emit("try:")
            emit("    raise Err()")
            emit("except Err:")
            ind += 1
        elif o == "fib":
            emit("try:")
            emit("    note(False)")
            emit("finally:")
            ind += 1
        elif o == "loop":
            emit("for i in range(2):")
            ind += 1
            # raise points 1..3 act in the first iteration, 4..6 in the second (after a complete first one)
            emit("c1 = p == 1 + 3 * i")
            emit("c2 = p == 2 + 3 * i")
            emit("c3 = p == 3 + 3 * i")
        if not last and o != "none":
            emit("note(False)")
    cond = lambda n: f"c{n}"  # noqa: E731
    if pre == "c":
        emit(f"note({cond(1)})")
    if where == "P":
        emit(f"x = {mk}({cond(1)}, {val})")
    emit("try:")
    ind += 1
    emit(f"x = {mk}({cond(2)}, {val})" if where == "F" else f"note({cond(2)})")
    emit(f"x = {mk}({cond(3)}, {val})" if where == "L" else f"note({cond(3)})")
    ind -= 1
    emit("except Err:" if inner == "te" else "finally:")
    ind += 1
    n0 = len(L)
    if where == "H":
        emit(f"x = {val}")
    if "ih" in reads:
        emit("res = x")
    if len(L) == n0:
        emit("note(False)")
    ind -= 1
    if "ai" in reads:
        emit("res = x")
    # close the regions that have handlers, innermost first
    for depth in range(len(outers) - 1, -1, -1):
        o = outers[depth]
        if o in ("te", "tf"):
            base, _ = closers.pop()
            ind = base
            emit("except Err:" if o == "te" else "finally:")
            ind += 1
            if "oh" in reads and depth == len(outers) - 1:
                emit("res = x")
            else:
                emit("note(False)")
            ind -= 1
    ind = 1
    if "af" in reads:
        emit("res = x")
    emit("return res")
    src = f"def {name}(p: int, a: object, v: int, w: i64) -> object:\n" + "\n".join(L) + "\n"
    return {"name": name, "typ": typ, "outer": "+".join(outers), "inner": inner, "where": where, "read": read, "pre": pre,
            "inputs": [[p] for p in (NR_INPUTS_LOOP if "loop" in outers else NR_INPUTS)], "mask": 0, "source": src}


def nr_functions(types: list[str], thorough: bool = False) -> list[dict]:
    out = []
    for typ in types:
        for o, inner, where, read, pre in itertools.product(NR_OUTER, NR_INNER, NR_WHERE, NR_READ_T if thorough else NR_READ,
                                                            NR_PRE):
            f = nr_function(typ, (o,), inner, where, read, pre)
            if f:
                out.append(f)
    if thorough:  # depth 3
        real = [o for o in NR_OUTER if o != "none"]
        for o1, o2, inner, where, read in itertools.product(real, real, NR_INNER, NR_WHERE, NR_READ):
            f = nr_function("obj", (o1, o2), inner, where, read, "c")
            if f:
                out.append(f)
    return out


def nr_modules(types: list[str], thorough: bool, n_modules: int) -> list[tuple[str, str, list[dict]]]:
    fns = nr_functions(types, thorough)
    out = []
    for i in range(n_modules):
        out.append((f"c06nr{i}", NR_PRELUDE, fns[i::n_modules]))
    return out
