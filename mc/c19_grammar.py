"""C19 definition grammar: every element once, packed into batch modules.

An *element* (Defn) is one top-level definition group of a generated module: a function, a class, an
alias ...  Every element owns the top-level names it defines (unique numeric suffix), so that a mypy
error line, a stubtest object path or a structural mismatch can be attributed to exactly one element.
Elements are enumerated simplest-first inside each family; `items(tier)` packs them into *items*:
batch modules of ~30 elements of one family, plus whole-module items for constructs that change the
meaning of the entire module (`__all__` variants) and 2-module packages (relative imports).

No sampling: `elements(tier)` is the stated finite space and is enumerated completely.  Quick is a
stated sub-space of thorough (see `func_elements`).
"""

from __future__ import annotations

import itertools
from dataclasses import dataclass, field
from typing import Iterator

MODES = ("parse", "default", "inspect")
MODE_FLAGS = {"parse": ["--parse-only"], "default": [], "inspect": ["--inspect-mode"]}

# import lines / helper snippets an element may need (emitted once per module, in this order)
PRELUDE: dict[str, str] = {
    "sys": "import sys",
    "abc": "import abc",
    "enum": "import enum",
    "dataclasses": "import dataclasses",
    "collections": "import collections",
    "functools": "import functools",
    "contextlib": "import contextlib",
    "typing": "import typing",
    "os.path": "import os.path",
    "from_dataclasses": "from dataclasses import dataclass, field, InitVar, KW_ONLY",
    "from_enum": "from enum import Enum, IntEnum, Flag, StrEnum, auto, unique",
    "from_collections": "from collections import namedtuple",
    "from_abc": "from abc import ABC, ABCMeta, abstractmethod",
    "from_functools": "from functools import cached_property",
    "Any": "from typing import Any",
    "Callable": "from typing import Callable",
    "ClassVar": "from typing import ClassVar",
    "Final": "from typing import Final",
    "Generic": "from typing import Generic",
    "TypeVar": "from typing import TypeVar",
    "ParamSpec": "from typing import ParamSpec",
    "TypeVarTuple": "from typing import TypeVarTuple, Unpack",
    "NamedTuple": "from typing import NamedTuple",
    "TypedDict": "from typing import TypedDict",
    "Required": "from typing import Required, NotRequired",
    "Optional": "from typing import Optional",
    "Union": "from typing import Union",
    "List": "from typing import List, Dict, Tuple",
    "Literal": "from typing import Literal",
    "Protocol": "from typing import Protocol",
    "overload": "from typing import overload",
    "TypeAlias": "from typing import TypeAlias",
    "TYPE_CHECKING": "from typing import TYPE_CHECKING",
    "Iterator": "from collections.abc import Iterator",
    # helpers (public, trivially stub-able themselves)
    "KH": "class KH:\n    pass",
    "CONST": "CONST = 7",
}
PRELUDE_ORDER = list(PRELUDE)


@dataclass
class Defn:
    id: str
    family: str  # coarse construct (part of the violation signature)
    label: str  # human-readable description of the exact element
    src: str
    names: list[str]  # top-level names this element owns
    needs: list[str] = field(default_factory=list)


# ----------------------------------------------------------------------------- functions

KIND_ORDER = {"P": 0, "K": 1, "V": 2, "N": 3, "W": 4}
TOKENS = ["P", "Pd", "K", "Kd", "V", "N", "Nd", "W"]
PNAMES = ["pa", "pb", "pc"]

# default forms: (label, source text, annotation compatible with it)
DEFAULTS_CORE = [
    ("int", "1", "int"),
    ("str", "'s'", "str"),
    ("None", "None", "Optional[int]"),
    ("tuple", "(1, 'a')", "tuple[int, str]"),
    ("name", "CONST", "int"),
    ("call", "int()", "int"),
    ("lambda", "lambda: 0", "Callable[[], int]"),
    ("ellipsis", "...", "Any"),
]
DEFAULTS_EXTRA = [
    ("negint", "-1", "int"),
    ("float", "1.5", "float"),
    ("bool", "True", "bool"),
    ("bytes", "b'x'", "bytes"),
    ("list", "[]", "list[int]"),
    ("dict", "{'k': 1}", "dict[str, int]"),
    ("attr", "sys.maxsize", "int"),
    ("binop", "1 + 2", "int"),
    ("strquote", "'it\\'s \"q\"'", "str"),
]
# annotation spellings for parameters without default, cycled by position
PLAIN_ANNS = ["int", "str", "list[int]"]


def _valid_sequence(seq: tuple[str, ...]) -> bool:
    kinds = [KIND_ORDER[t[0]] for t in seq]
    if kinds != sorted(kinds):
        return False
    if sum(t == "V" for t in seq) > 1 or sum(t == "W" for t in seq) > 1:
        return False
    try:
        compile(f"def f({_render_params(seq, '1', 'none', None)[0]}): pass", "<c19>", "exec")
    except SyntaxError:
        return False
    return True


def _render_params(seq: tuple[str, ...], dflt: str, annot: str, dflt_ann: str | None) -> tuple[str, list[str]]:
    """Returns (parameter list text, needs).  annot in {none, full, partial}."""
    parts: list[str] = []
    n_pos_only = sum(t[0] == "P" for t in seq)
    have_star = any(t == "V" for t in seq)
    emitted_slash = n_pos_only == 0
    emitted_star = have_star
    for i, t in enumerate(seq):
        if not emitted_slash and t[0] != "P":
            parts.append("/")
            emitted_slash = True
        if t[0] == "N" and not emitted_star:
            parts.append("*")
            emitted_star = True
        name = PNAMES[i]
        annotate = annot == "full" or (annot == "partial" and i % 2 == 0)
        if t == "V":
            parts.append(f"*{name}" + (": int" if annotate else ""))
        elif t == "W":
            parts.append(f"**{name}" + (": str" if annotate else ""))
        elif t.endswith("d"):
            parts.append(f"{name}: {dflt_ann} = {dflt}" if annotate else f"{name}={dflt}")
        else:
            parts.append(f"{name}: {PLAIN_ANNS[i % len(PLAIN_ANNS)]}" if annotate else name)
    if not emitted_slash:
        parts.append("/")
    return ", ".join(parts), []


def all_sequences(maxlen: int) -> list[tuple[str, ...]]:
    out = []
    for n in range(maxlen + 1):
        for seq in itertools.product(TOKENS, repeat=n):
            if _valid_sequence(seq):
                out.append(seq)
    return out


def _needs_of(text: str) -> list[str]:
    out = []
    for key in ("Optional", "Callable", "Any", "Union", "ClassVar", "Final", "Literal"):
        if key + "[" in text or (key in ("Any", "Final") and key in text):
            out.append(key)
    if "CONST" in text:
        out.append("CONST")
    if "KH" in text:
        out.append("KH")
    if "sys." in text:
        out.append("sys")
    if "List[" in text or "Dict[" in text or "Tuple[" in text:
        out.append("List")
    return out


def func_elements(tier: str) -> Iterator[tuple[str, str, str, list[str]]]:
    """Yields (family, label, template, needs); `@` in the template is the element's unique index.

    thorough: every sequence <= 3 x every default form (core + extra) x {none, full, partial}
    quick   : every sequence <= 3 x default=int x {none, full, partial}
              + every sequence <= 2 that has a default x every other core form x {none, full}
              + the sequence (Kd,) x every extra form x {none, full}
    """
    seqs3 = all_sequences(3)
    seqs2 = [s for s in seqs3 if len(s) <= 2]
    plan: list[tuple[tuple[str, ...], tuple[str, str, str], str]] = []
    if tier == "thorough":
        for d in DEFAULTS_CORE + DEFAULTS_EXTRA:
            for s in seqs3:
                if d[0] != "int" and not any(t.endswith("d") for t in s):
                    continue  # no default in the sequence: the form is irrelevant, enumerated once
                for a in ("none", "full", "partial"):
                    if a == "partial" and len(s) < 2:
                        continue
                    plan.append((s, d, a))
    else:
        for s in seqs3:
            for a in ("none", "full", "partial"):
                if a == "partial" and len(s) < 2:
                    continue
                plan.append((s, DEFAULTS_CORE[0], a))
        for d in DEFAULTS_CORE[1:]:
            for s in seqs2:
                if not any(t.endswith("d") for t in s):
                    continue
                for a in ("none", "full"):
                    plan.append((s, d, a))
        for d in DEFAULTS_EXTRA:
            for a in ("none", "full"):
                plan.append((("Kd",), d, a))
    for s, (dl, dsrc, dann), a in plan:
        params, _ = _render_params(s, dsrc, a, dann)
        ret = " -> int" if a == "full" else ""
        body = "return 0" if a == "full" else "pass"
        src = f"def f@({params}){ret}:\n    {body}"
        label = f"def kinds={'-'.join(s) or 'none'} default={dl} annot={a}"
        yield "func", label, src, _needs_of(src)


FUNC_MISC = [
    ("async def", "async def f@(pa: int) -> str:\n    return ''", []),
    ("async def unannotated", "async def f@(pa):\n    pass", []),
    ("generator yield value", "def f@(pa):\n    yield pa", []),
    ("generator yield bare + return value", "def f@():\n    yield\n    return 1", []),
    ("generator send", "def f@():\n    pb = yield 1\n    return pb", []),
    ("generator yield from", "def f@(pa):\n    yield from pa", []),
    ("generator annotated", "def f@(pa: int) -> Iterator[int]:\n    yield pa", ["Iterator"]),
    ("async generator", "async def f@():\n    yield 1", []),
    ("returns value unannotated", "def f@(pa):\n    return pa", []),
    ("custom decorator", "def deco@(fn):\n    return fn\n@deco@\ndef f@(pa: int) -> int:\n    return pa", []),
    ("custom decorator factory", "def decf@(k):\n    def w(fn):\n        return fn\n    return w\n@decf@(1)\ndef f@(pa: int) -> int:\n    return pa", []),
    ("functools.wraps", "def deco@(fn):\n    @functools.wraps(fn)\n    def w(*pa, **pb):\n        return fn(*pa, **pb)\n    return w\n@deco@\ndef f@(pa: int) -> int:\n    return pa", ["functools"]),
    ("contextmanager", "@contextlib.contextmanager\ndef f@(pa: int):\n    yield pa", ["contextlib"]),
    ("nested function", "def f@(pa):\n    def inner(pb):\n        return pb\n    return inner", []),
    ("docstring", "def f@(pa: int) -> int:\n    '''doc'''\n    return pa", []),
    ("redefinition", "def f@(pa: int) -> int:\n    return pa\ndef f@(pa: int) -> int:\n    return pa + 1", []),
    ("lambda assigned", "f@ = lambda pa: pa", []),
]

# annotation spellings (structural faithfulness + valid printing); K = helper class
ANN_FORMS = [
    ("int", []), ("str", []), ("bool", []), ("None", []), ("object", []), ("bytes", []),
    ("list[int]", []), ("dict[str, int]", []), ("tuple[int, ...]", []), ("tuple[int, str]", []), ("tuple[()]", []),
    ("set[int]", []), ("type[int]", []), ("int | None", []), ("int | str", []), ("int | str | None", []),
    ("Optional[int]", ["Optional"]), ("Union[int, str]", ["Union"]), ("Union[int, None]", ["Union"]),
    ("Optional[Union[int, str]]", ["Optional", "Union"]),
    ("Any", ["Any"]), ("list[Any]", ["Any"]),
    ("Callable[[int], str]", ["Callable"]), ("Callable[..., int]", ["Callable"]), ("Callable[[], None]", ["Callable"]),
    ("Callable[[int, str], list[int]]", ["Callable"]),
    ("List[int]", ["List"]), ("Dict[str, int]", ["List"]), ("Tuple[int, ...]", ["List"]),
    ("typing.List[int]", ["typing"]), ("typing.Optional[int]", ["typing"]), ("typing.Any", ["typing"]),
    ("typing.Callable[[int], str]", ["typing"]),
    ("Literal[1]", ["Literal"]), ("Literal['a', 'b']", ["Literal"]), ("Literal[1, None]", ["Literal"]),
    ("KH", ["KH"]), ("'KH'", ["KH"]), ("list['KH']", ["KH"]), ("'list[KH]'", ["KH"]), ("type[KH]", ["KH"]),
    ("Optional['KH']", ["KH", "Optional"]), ("'KH | None'", ["KH"]),
    ("'int'", []), ("enum.Enum", ["enum"]), ("collections.OrderedDict[str, int]", ["collections"]),
    ("Iterator[int]", ["Iterator"]),
]

# ----------------------------------------------------------------------------- variables

VAR_FORMS = [
    ("annotated int with value", "v@: int = 1", []),
    ("annotated str", "v@: str = 's'", []),
    ("annotated Optional", "v@: Optional[int] = None", ["Optional"]),
    ("annotated list", "v@: list[int] = []", []),
    ("annotated quoted", "v@: 'KH' = KH()", ["KH"]),
    ("annotated Callable", "v@: Callable[[int], str] = str", ["Callable"]),
    ("annotated Any", "v@: Any = 1", ["Any"]),
    ("unannotated int", "v@ = 1", []),
    ("unannotated negative int", "v@ = -1", []),
    ("unannotated str", "v@ = 's'", []),
    ("unannotated bytes", "v@ = b'x'", []),
    ("unannotated float", "v@ = 1.5", []),
    ("unannotated complex", "v@ = 1j", []),
    ("unannotated bool", "v@ = True", []),
    ("unannotated None", "v@ = None", []),
    ("unannotated list", "v@ = [1, 2]", []),
    ("unannotated dict", "v@ = {'a': 1}", []),
    ("unannotated tuple", "v@ = (1, 'a')", []),
    ("unannotated call", "v@ = int('3')", []),
    ("unannotated instance", "v@ = KH()", ["KH"]),
    ("unannotated binop", "v@ = 1 + 2", []),
    ("unannotated lambda", "v@ = lambda: 0", []),
    ("unannotated comprehension", "v@ = [pa for pa in range(3)]", []),
    ("unannotated conditional expr", "v@ = 1 if CONST else 's'", ["CONST"]),
    ("tuple unpacking", "v@, w@ = 1, 's'", []),
    ("chained assignment", "v@ = w@ = 1", []),
    ("Final bare", "v@: Final = 1", ["Final"]),
    ("Final[int]", "v@: Final[int] = 1", ["Final"]),
    ("Final str", "v@: Final = 's'", ["Final"]),
    ("Final call", "v@: Final = int('3')", ["Final"]),
    ("typing.Final bare", "v@: typing.Final = 1", ["typing"]),
    ("augmented assignment", "v@ = 1\nv@ += 1", []),
    ("global in function", "v@ = 0\ndef f@() -> None:\n    global v@\n    v@ = 1", []),
    ("for-loop variable", "for v@ in range(2):\n    pass", []),
    ("with variable", "with open(__file__) as v@:\n    pass", []),
    ("walrus", "if (v@ := 3) > 2:\n    pass", []),
]

# ----------------------------------------------------------------------------- classes

CLASS_FORMS = [
    ("empty class", "class C@:\n    pass", []),
    ("docstring only", "class C@:\n    '''doc'''", []),
    ("method unannotated", "class C@:\n    def m(self, pa):\n        return pa", []),
    ("method annotated", "class C@:\n    def m(self, pa: int) -> str:\n        return ''", []),
    ("method pos-only/kw-only", "class C@:\n    def m(self, pa, /, pb=1, *, pc: str = 's') -> None:\n        pass", []),
    ("method self pos-only", "class C@:\n    def m(self, /, pa: int = 0) -> None:\n        pass", []),
    ("method *args/**kw", "class C@:\n    def m(self, *pa: int, **pb: str) -> None:\n        pass", []),
    ("method other self name", "class C@:\n    def m(this, pa: int) -> None:\n        pass", []),
    ("__init__ with attributes", "class C@:\n    def __init__(self, pa: int, pb='s') -> None:\n        self.x = pa\n        self.y: str = pb\n        self.z = 0", []),
    ("__init__ unannotated", "class C@:\n    def __init__(self, pa, pb=None):\n        self.x = pa", []),
    ("attribute set in other method", "class C@:\n    def m(self) -> None:\n        self.x = 1", []),
    ("property getter", "class C@:\n    @property\n    def p(self) -> int:\n        return 1", []),
    ("property getter unannotated", "class C@:\n    @property\n    def p(self):\n        return 1", []),
    ("property getter/setter", "class C@:\n    @property\n    def p(self) -> int:\n        return 1\n    @p.setter\n    def p(self, pa: int) -> None:\n        pass", []),
    ("property getter/setter unannotated", "class C@:\n    @property\n    def p(self):\n        return 1\n    @p.setter\n    def p(self, pa):\n        pass", []),
    ("property getter/setter/deleter", "class C@:\n    @property\n    def p(self) -> int:\n        return 1\n    @p.setter\n    def p(self, pa: int) -> None:\n        pass\n    @p.deleter\n    def p(self) -> None:\n        pass", []),
    ("property getter/deleter", "class C@:\n    @property\n    def p(self) -> int:\n        return 1\n    @p.deleter\n    def p(self) -> None:\n        pass", []),
    ("property via call", "class C@:\n    def gp(self) -> int:\n        return 1\n    def sp(self, pa: int) -> None:\n        pass\n    p = property(gp, sp)", []),
    ("cached_property", "class C@:\n    @cached_property\n    def p(self) -> int:\n        return 1", ["from_functools"]),
    ("functools.cached_property", "class C@:\n    @functools.cached_property\n    def p(self) -> int:\n        return 1", ["functools"]),
    ("staticmethod annotated", "class C@:\n    @staticmethod\n    def s(pa: int, pb: str = 's') -> int:\n        return 0", []),
    ("staticmethod unannotated", "class C@:\n    @staticmethod\n    def s(pa, *pb, **pc):\n        pass", []),
    ("staticmethod no args", "class C@:\n    @staticmethod\n    def s():\n        pass", []),
    ("classmethod annotated", "class C@:\n    @classmethod\n    def c(cls, pa: int = 0) -> 'C@':\n        return cls()", []),
    ("classmethod unannotated", "class C@:\n    @classmethod\n    def c(cls, pa, /, *, pb=None):\n        pass", []),
    ("classmethod + property names", "class C@:\n    @classmethod\n    def c(cls) -> int:\n        return 1\n    @staticmethod\n    def s(self) -> int:\n        return 1", []),
    ("__slots__ tuple", "class C@:\n    __slots__ = ('x', 'y')\n    def __init__(self) -> None:\n        self.x = 1\n        self.y = 's'", []),
    ("__slots__ list", "class C@:\n    __slots__ = ['x']\n    def __init__(self, pa: int) -> None:\n        self.x = pa", []),
    ("__slots__ str", "class C@:\n    __slots__ = 'x'\n    def __init__(self) -> None:\n        self.x: int = 1", []),
    ("__slots__ empty", "class C@:\n    __slots__ = ()", []),
    ("__slots__ with annotations", "class C@:\n    __slots__ = ('x',)\n    x: int\n    def __init__(self) -> None:\n        self.x = 1", []),
    ("class var annotated with value", "class C@:\n    x: int = 0", []),
    ("class var annotated without value", "class C@:\n    x: int", []),
    ("class var unannotated int", "class C@:\n    x = 0", []),
    ("class var unannotated str/None/call", "class C@:\n    x = 's'\n    y = None\n    z = int('1')", []),
    ("class var ClassVar", "class C@:\n    x: ClassVar[int] = 0", ["ClassVar"]),
    ("class var bare ClassVar", "class C@:\n    x: ClassVar = 0", ["ClassVar"]),
    ("class var Final", "class C@:\n    x: Final = 0\n    y: Final[str] = 's'", ["Final"]),
    ("class var Optional", "class C@:\n    x: Optional[int] = None", ["Optional"]),
    ("class var quoted self reference", "class C@:\n    x: 'Optional[C@]' = None", ["Optional"]),
    ("class var tuple unpacking", "class C@:\n    x, y = 1, 2", []),
    ("class var alias of method", "class C@:\n    def m(self) -> int:\n        return 1\n    m2 = m", []),
    ("class var lambda", "class C@:\n    x = lambda self: 1", []),
    ("nested class", "class C@:\n    class N:\n        def m(self, pa: int) -> int:\n            return pa", []),
    ("nested class two levels", "class C@:\n    class N:\n        class NN:\n            x: int = 0\n            def m(self) -> None:\n                pass", []),
    ("nested class used in annotation", "class C@:\n    class N:\n        pass\n    def m(self) -> 'C@.N':\n        return C@.N()\n    def m2(self, pa: N) -> None:\n        pass", []),
    ("nested empty classes", "class C@:\n    class N1:\n        pass\n    class N2:\n        pass\n    x: int = 0", []),
    ("nested enum", "class C@:\n    class E(enum.Enum):\n        A = 1", ["enum"]),
    ("inheritance local", "class B@:\n    def m(self, pa: int) -> int:\n        return pa\nclass C@(B@):\n    def m(self, pa: int) -> int:\n        return 0", []),
    ("inheritance object", "class C@(object):\n    pass", []),
    ("inheritance builtin", "class C@(dict):\n    def m(self) -> None:\n        pass", []),
    ("inheritance generic builtin", "class C@(list[int]):\n    pass", []),
    ("inheritance stdlib dotted", "class C@(collections.OrderedDict):\n    pass", ["collections"]),
    ("inheritance Exception", "class C@(Exception):\n    def __init__(self, pa: str) -> None:\n        super().__init__(pa)\n        self.pa = pa", []),
    ("multiple inheritance", "class A@:\n    pass\nclass B@:\n    pass\nclass C@(A@, B@):\n    pass", []),
    ("base is call", "def mk@():\n    return object\nclass C@(mk@()):\n    pass", []),
    ("class keyword argument", "class B@:\n    def __init_subclass__(cls, flag: bool = False) -> None:\n        pass\nclass C@(B@, flag=True):\n    pass", []),
    ("metaclass ABCMeta + abstractmethod", "class C@(metaclass=ABCMeta):\n    @abstractmethod\n    def m(self, pa: int) -> int: ...", ["from_abc"]),
    ("abc.ABC + abstractmethod", "class C@(abc.ABC):\n    @abc.abstractmethod\n    def m(self) -> int: ...\n    def n(self) -> int:\n        return 1", ["abc"]),
    ("abstract property", "class C@(ABC):\n    @property\n    @abstractmethod\n    def p(self) -> int: ...", ["from_abc"]),
    ("abstract classmethod/staticmethod", "class C@(ABC):\n    @classmethod\n    @abstractmethod\n    def c(cls) -> int: ...\n    @staticmethod\n    @abstractmethod\n    def s() -> int: ...", ["from_abc"]),
    ("custom metaclass", "class M@(type):\n    pass\nclass C@(metaclass=M@):\n    pass", []),
    ("Protocol", "class C@(Protocol):\n    x: int\n    def m(self, pa: int) -> str: ...", ["Protocol"]),
    ("class decorator custom", "def cd@(c):\n    return c\n@cd@\nclass C@:\n    x: int = 0", []),
    ("functools.total_ordering", "@functools.total_ordering\nclass C@:\n    def __eq__(self, other: object) -> bool:\n        return True\n    def __lt__(self, other: 'C@') -> bool:\n        return False", ["functools"]),
    ("dunder methods", "class C@:\n    def __len__(self):\n        return 0\n    def __eq__(self, other):\n        return True\n    def __hash__(self):\n        return 0\n    def __iter__(self):\n        return iter(())\n    def __getitem__(self, pa):\n        return pa\n    def __contains__(self, pa):\n        return True\n    def __bool__(self):\n        return True", []),
    ("context manager dunders", "class C@:\n    def __enter__(self):\n        return self\n    def __exit__(self, pa, pb, pc):\n        pass", []),
    ("__call__ and __new__", "class C@:\n    def __new__(cls, pa: int = 0) -> 'C@':\n        return super().__new__(cls)\n    def __call__(self, pa: int) -> int:\n        return pa", []),
    ("__str__/__repr__", "class C@:\n    def __str__(self) -> str:\n        return ''\n    def __repr__(self) -> str:\n        return ''", []),
    ("private members", "class C@:\n    _x: int = 0\n    def _m(self) -> None:\n        pass\n    def m(self) -> None:\n        pass", []),
    ("name-mangled members", "class C@:\n    __x: int = 0\n    def __m(self) -> None:\n        pass", []),
    ("async method", "class C@:\n    async def m(self, pa: int) -> int:\n        return pa", []),
    ("method default forms", "class C@:\n    def m(self, pa=(1, 2), pb=None, pc='s', pd=lambda: 0, pe=CONST):\n        pass", ["CONST"]),
    ("conditional method", "class C@:\n    if sys.version_info >= (3, 8):\n        def m(self, pa: int) -> int:\n            return pa\n    else:\n        def m(self) -> None:\n            pass", ["sys"]),
    ("instance of class as module var", "class C@:\n    pass\nc@ = C@()", []),
]

DATACLASS_FORMS = [
    ("@dataclass plain", "@dataclass\nclass D@:\n    x: int\n    y: str", ["from_dataclasses"]),
    ("@dataclasses.dataclass plain", "@dataclasses.dataclass\nclass D@:\n    x: int", ["dataclasses"]),
    ("@dataclass() call", "@dataclass()\nclass D@:\n    x: int", ["from_dataclasses"]),
    ("defaults", "@dataclass\nclass D@:\n    x: int\n    y: str = 's'\n    z: Optional[int] = None", ["from_dataclasses", "Optional"]),
    ("field default", "@dataclass\nclass D@:\n    x: int = field(default=1)", ["from_dataclasses"]),
    ("field default_factory", "@dataclass\nclass D@:\n    x: list[int] = field(default_factory=list)", ["from_dataclasses"]),
    ("field default_factory lambda", "@dataclass\nclass D@:\n    x: list[int] = field(default_factory=lambda: [1])", ["from_dataclasses"]),
    ("dataclasses.field", "@dataclasses.dataclass\nclass D@:\n    x: int = dataclasses.field(default=1, repr=False)", ["dataclasses"]),
    ("field init=False", "@dataclass\nclass D@:\n    x: int\n    y: int = field(init=False, default=0)", ["from_dataclasses"]),
    ("field kw_only", "@dataclass\nclass D@:\n    x: int\n    y: int = field(kw_only=True, default=0)", ["from_dataclasses"]),
    ("frozen", "@dataclass(frozen=True)\nclass D@:\n    x: int", ["from_dataclasses"]),
    ("order", "@dataclass(order=True)\nclass D@:\n    x: int", ["from_dataclasses"]),
    ("eq=False", "@dataclass(eq=False)\nclass D@:\n    x: int", ["from_dataclasses"]),
    ("kw_only=True", "@dataclass(kw_only=True)\nclass D@:\n    x: int\n    y: str = 's'", ["from_dataclasses"]),
    ("slots=True", "@dataclass(slots=True)\nclass D@:\n    x: int", ["from_dataclasses"]),
    ("init=False", "@dataclass(init=False)\nclass D@:\n    x: int", ["from_dataclasses"]),
    ("KW_ONLY sentinel", "@dataclass\nclass D@:\n    x: int\n    _: KW_ONLY\n    y: int = 0", ["from_dataclasses"]),
    ("InitVar", "@dataclass\nclass D@:\n    x: int\n    y: InitVar[int]\n    def __post_init__(self, y: int) -> None:\n        pass", ["from_dataclasses"]),
    ("ClassVar", "@dataclass\nclass D@:\n    x: int\n    c: ClassVar[int] = 0", ["from_dataclasses", "ClassVar"]),
    ("unannotated attribute", "@dataclass\nclass D@:\n    x: int\n    k = 3", ["from_dataclasses"]),
    ("with method and property", "@dataclass\nclass D@:\n    x: int\n    def m(self) -> int:\n        return self.x\n    @property\n    def p(self) -> int:\n        return self.x", ["from_dataclasses"]),
    ("explicit __init__", "@dataclass\nclass D@:\n    x: int\n    def __init__(self, pa: str) -> None:\n        self.x = int(pa)", ["from_dataclasses"]),
    ("inheritance", "@dataclass\nclass B@:\n    x: int\n@dataclass\nclass D@(B@):\n    y: str = 's'", ["from_dataclasses"]),
    ("generic", "T@ = TypeVar('T@')\n@dataclass\nclass D@(Generic[T@]):\n    x: T@", ["from_dataclasses", "TypeVar", "Generic"]),
    ("nested dataclass", "class C@:\n    @dataclass\n    class D:\n        x: int = 0", ["from_dataclasses"]),
    ("quoted field types", "@dataclass\nclass D@:\n    x: 'int'\n    y: 'Optional[D@]' = None", ["from_dataclasses", "Optional"]),
]

ENUM_FORMS = [
    ("Enum int values", "class E@(enum.Enum):\n    A = 1\n    B = 2", ["enum"]),
    ("Enum str values", "class E@(Enum):\n    A = 'a'\n    B = 'b'", ["from_enum"]),
    ("Enum mixed/None/tuple values", "class E@(Enum):\n    A = None\n    B = (1, 2)\n    C = 1.5", ["from_enum"]),
    ("Enum auto()", "class E@(Enum):\n    A = auto()\n    B = auto()", ["from_enum"]),
    ("Enum enum.auto()", "class E@(enum.Enum):\n    A = enum.auto()", ["enum"]),
    ("Enum call value", "class E@(Enum):\n    A = int('1')", ["from_enum"]),
    ("Enum alias member", "class E@(Enum):\n    A = 1\n    B = A", ["from_enum"]),
    ("IntEnum", "class E@(IntEnum):\n    A = 1\n    B = 2", ["from_enum"]),
    ("enum.IntEnum negative", "class E@(enum.IntEnum):\n    A = -1", ["enum"]),
    ("StrEnum", "class E@(StrEnum):\n    A = 'a'", ["from_enum"]),
    ("Flag", "class E@(Flag):\n    A = 1\n    B = 2\n    C = A | B", ["from_enum"]),
    ("str mixin", "class E@(str, Enum):\n    A = 'a'", ["from_enum"]),
    ("Enum with method", "class E@(Enum):\n    A = 1\n    def m(self) -> int:\n        return 1", ["from_enum"]),
    ("Enum with property/classmethod", "class E@(Enum):\n    A = 1\n    @property\n    def p(self) -> int:\n        return 1\n    @classmethod\n    def c(cls) -> 'E@':\n        return cls.A", ["from_enum"]),
    ("Enum with annotated non-member", "class E@(Enum):\n    x: int\n    A = 1", ["from_enum"]),
    ("Enum with private attr", "class E@(Enum):\n    _ignore_ = ['T']\n    A = 1", ["from_enum"]),
    ("Enum with __init__", "class E@(Enum):\n    A = (1, 'a')\n    def __init__(self, pa: int, pb: str) -> None:\n        self.pa = pa\n        self.pb = pb", ["from_enum"]),
    ("@unique", "@unique\nclass E@(Enum):\n    A = 1", ["from_enum"]),
    ("empty Enum base + subclass", "class B@(Enum):\n    def m(self) -> int:\n        return 1\nclass E@(B@):\n    A = 1", ["from_enum"]),
    ("functional API str", "E@ = Enum('E@', 'A B')", ["from_enum"]),
    ("functional API list", "E@ = enum.Enum('E@', ['A', 'B'])", ["enum"]),
    ("functional API dict", "E@ = Enum('E@', {'A': 1})", ["from_enum"]),
    ("member used as default", "class E@(Enum):\n    A = 1\ndef f@(pa: E@ = E@.A) -> E@:\n    return pa", ["from_enum"]),
    ("member used as annotation Literal", "class E@(Enum):\n    A = 1\ndef f@(pa: Literal[E@.A]) -> None:\n    pass", ["from_enum", "Literal"]),
    ("module-level member alias", "class E@(Enum):\n    A = 1\nv@ = E@.A", ["from_enum"]),
]

NAMEDTUPLE_FORMS = [
    ("class syntax", "class N@(NamedTuple):\n    a: int\n    b: str", ["NamedTuple"]),
    ("class syntax defaults", "class N@(NamedTuple):\n    a: int\n    b: str = 's'\n    c: Optional[int] = None", ["NamedTuple", "Optional"]),
    ("class syntax typing.NamedTuple", "class N@(typing.NamedTuple):\n    a: int", ["typing"]),
    ("class syntax with method", "class N@(NamedTuple):\n    a: int\n    def m(self) -> int:\n        return self.a\n    @property\n    def p(self) -> int:\n        return 1", ["NamedTuple"]),
    ("class syntax empty", "class N@(NamedTuple):\n    pass", ["NamedTuple"]),
    ("class syntax generic", "T@ = TypeVar('T@')\nclass N@(NamedTuple, Generic[T@]):\n    a: T@", ["NamedTuple", "TypeVar", "Generic"]),
    ("class syntax quoted", "class N@(NamedTuple):\n    a: 'int'\n    b: 'Optional[N@]' = None", ["NamedTuple", "Optional"]),
    ("call list of tuples", "N@ = NamedTuple('N@', [('a', int), ('b', str)])", ["NamedTuple"]),
    ("call tuple of tuples", "N@ = NamedTuple('N@', (('a', int),))", ["NamedTuple"]),
    ("call typing.NamedTuple", "N@ = typing.NamedTuple('N@', [('a', int)])", ["typing"]),
    ("call empty", "N@ = NamedTuple('N@', [])", ["NamedTuple"]),
    ("call complex types", "N@ = NamedTuple('N@', [('a', Optional[int]), ('b', list[str]), ('c', 'KH')])", ["NamedTuple", "Optional", "KH"]),
    ("call other name", "N@ = NamedTuple('Other@', [('a', int)])", ["NamedTuple"]),
    ("collections.namedtuple str", "N@ = collections.namedtuple('N@', 'a b')", ["collections"]),
    ("namedtuple comma str", "N@ = namedtuple('N@', 'a, b')", ["from_collections"]),
    ("namedtuple list", "N@ = namedtuple('N@', ['a', 'b'])", ["from_collections"]),
    ("namedtuple tuple", "N@ = namedtuple('N@', ('a',))", ["from_collections"]),
    ("namedtuple empty", "N@ = namedtuple('N@', [])", ["from_collections"]),
    ("namedtuple defaults", "N@ = namedtuple('N@', 'a b', defaults=(1,))", ["from_collections"]),
    ("namedtuple rename", "N@ = namedtuple('N@', ['a', 'def'], rename=True)", ["from_collections"]),
    ("namedtuple non-literal fields", "flds@ = ['a', 'b']\nN@ = namedtuple('N@', flds@)", ["from_collections"]),
    ("class from namedtuple call", "class N@(namedtuple('N@', 'a b')):\n    def m(self) -> int:\n        return 1", ["from_collections"]),
    ("class from NamedTuple call", "class N@(NamedTuple('NB@', [('a', int)])):\n    def m(self) -> int:\n        return self.a", ["NamedTuple"]),
    ("class from named base", "NB@ = namedtuple('NB@', 'a')\nclass N@(NB@):\n    pass", ["from_collections"]),
    ("nested in class", "class C@:\n    N = namedtuple('N', 'a')\n    class N2(NamedTuple):\n        a: int", ["from_collections", "NamedTuple"]),
]

TYPEDDICT_FORMS = [
    ("class syntax", "class D@(TypedDict):\n    a: int\n    b: str", ["TypedDict"]),
    ("class syntax total=False", "class D@(TypedDict, total=False):\n    a: int", ["TypedDict"]),
    ("class syntax typing.TypedDict", "class D@(typing.TypedDict):\n    a: int", ["typing"]),
    ("class syntax empty", "class D@(TypedDict):\n    pass", ["TypedDict"]),
    ("class syntax Required/NotRequired", "class D@(TypedDict):\n    a: Required[int]\n    b: NotRequired[str]", ["TypedDict", "Required"]),
    ("class syntax inheritance", "class B@(TypedDict):\n    a: int\nclass D@(B@, total=False):\n    b: str", ["TypedDict"]),
    ("class syntax generic", "T@ = TypeVar('T@')\nclass D@(TypedDict, Generic[T@]):\n    a: T@", ["TypedDict", "TypeVar", "Generic"]),
    ("class syntax quoted/nested", "class D@(TypedDict):\n    a: 'int'\n    b: Optional['D@']\n    c: list[dict[str, int]]", ["TypedDict", "Optional"]),
    ("call dict", "D@ = TypedDict('D@', {'a': int, 'b': str})", ["TypedDict"]),
    ("call dict total=False", "D@ = TypedDict('D@', {'a': int}, total=False)", ["TypedDict"]),
    ("call typing.TypedDict", "D@ = typing.TypedDict('D@', {'a': int})", ["typing"]),
    ("call empty dict", "D@ = TypedDict('D@', {})", ["TypedDict"]),
    ("call complex types", "D@ = TypedDict('D@', {'a': Optional[int], 'b': list[str], 'c': 'KH'})", ["TypedDict", "Optional", "KH"]),
    ("call non-identifier key", "D@ = TypedDict('D@', {'a-b': int, 'c': str})", ["TypedDict"]),
    ("call keyword key", "D@ = TypedDict('D@', {'class': int})", ["TypedDict"]),
    ("call Required", "D@ = TypedDict('D@', {'a': Required[int], 'b': NotRequired[str]})", ["TypedDict", "Required"]),
    ("call other name", "D@ = TypedDict('Other@', {'a': int})", ["TypedDict"]),
    ("used in annotations", "class D@(TypedDict):\n    a: int\ndef f@(pa: D@) -> D@:\n    return pa", ["TypedDict"]),
]

OVERLOAD_FORMS = [
    ("function 2 overloads", "@overload\ndef f@(pa: int) -> int: ...\n@overload\ndef f@(pa: str) -> str: ...\ndef f@(pa):\n    return pa", ["overload"]),
    ("function 3 overloads with defaults", "@overload\ndef f@() -> None: ...\n@overload\ndef f@(pa: int) -> int: ...\n@overload\ndef f@(pa: str, pb: int = 0) -> str: ...\ndef f@(pa=0, pb=0):\n    return pa", ["overload"]),
    ("typing.overload", "@typing.overload\ndef f@(pa: int) -> int: ...\n@typing.overload\ndef f@(pa: str) -> str: ...\ndef f@(pa):\n    return pa", ["typing"]),
    ("overload keyword-only / pos-only", "@overload\ndef f@(pa: int, /) -> int: ...\n@overload\ndef f@(*, pb: str) -> str: ...\ndef f@(pa=0, /, *, pb=''):\n    return pa", ["overload"]),
    ("overload Literal", "@overload\ndef f@(pa: Literal[True]) -> int: ...\n@overload\ndef f@(pa: Literal[False]) -> str: ...\ndef f@(pa: bool):\n    return 1 if pa else ''", ["overload", "Literal"]),
    ("method overloads", "class C@:\n    @overload\n    def m(self, pa: int) -> int: ...\n    @overload\n    def m(self, pa: str) -> str: ...\n    def m(self, pa):\n        return pa", ["overload"]),
    ("staticmethod overloads", "class C@:\n    @overload\n    @staticmethod\n    def s(pa: int) -> int: ...\n    @overload\n    @staticmethod\n    def s(pa: str) -> str: ...\n    @staticmethod\n    def s(pa):\n        return pa", ["overload"]),
    ("classmethod overloads", "class C@:\n    @overload\n    @classmethod\n    def c(cls, pa: int) -> int: ...\n    @overload\n    @classmethod\n    def c(cls, pa: str) -> str: ...\n    @classmethod\n    def c(cls, pa):\n        return pa", ["overload"]),
    ("__init__ overloads", "class C@:\n    @overload\n    def __init__(self, pa: int) -> None: ...\n    @overload\n    def __init__(self, pa: str, pb: int) -> None: ...\n    def __init__(self, pa, pb=0) -> None:\n        pass", ["overload"]),
    ("async overloads", "@overload\nasync def f@(pa: int) -> int: ...\n@overload\nasync def f@(pa: str) -> str: ...\nasync def f@(pa):\n    return pa", ["overload"]),
    ("overloads with annotated implementation", "@overload\ndef f@(pa: int) -> int: ...\n@overload\ndef f@(pa: str) -> str: ...\ndef f@(pa: Union[int, str]) -> Union[int, str]:\n    return pa", ["overload", "Union"]),
    ("property + overloaded method", "class C@:\n    @property\n    def p(self) -> int:\n        return 1\n    @overload\n    def m(self, pa: int) -> int: ...\n    @overload\n    def m(self, pa: None = None) -> None: ...\n    def m(self, pa=None):\n        return pa", ["overload"]),
]

GENERIC_FORMS = [
    ("TypeVar plain + function", "T@ = TypeVar('T@')\ndef f@(pa: T@) -> T@:\n    return pa", ["TypeVar"]),
    ("TypeVar bound", "T@ = TypeVar('T@', bound=int)\ndef f@(pa: T@) -> T@:\n    return pa", ["TypeVar"]),
    ("TypeVar bound quoted", "T@ = TypeVar('T@', bound='KH')\ndef f@(pa: T@) -> T@:\n    return pa", ["TypeVar", "KH"]),
    ("TypeVar constrained", "T@ = TypeVar('T@', int, str)\ndef f@(pa: T@) -> T@:\n    return pa", ["TypeVar"]),
    ("TypeVar covariant", "T@ = TypeVar('T@', covariant=True)\nclass G@(Generic[T@]):\n    def m(self) -> T@:\n        raise NotImplementedError", ["TypeVar", "Generic"]),
    ("typing.TypeVar", "T@ = typing.TypeVar('T@')\ndef f@(pa: T@) -> T@:\n    return pa", ["typing"]),
    ("private TypeVar", "_T@ = TypeVar('_T@')\ndef f@(pa: _T@) -> _T@:\n    return pa", ["TypeVar"]),
    ("Generic class", "T@ = TypeVar('T@')\nclass G@(Generic[T@]):\n    def __init__(self, pa: T@) -> None:\n        self.x = pa\n    def m(self) -> T@:\n        return self.x", ["TypeVar", "Generic"]),
    ("Generic two params", "K@ = TypeVar('K@')\nV@ = TypeVar('V@')\nclass G@(Generic[K@, V@]):\n    def m(self, pa: K@) -> V@:\n        raise KeyError", ["TypeVar", "Generic"]),
    ("Generic subclass", "T@ = TypeVar('T@')\nclass B@(Generic[T@]):\n    pass\nclass G@(B@[int]):\n    pass\nclass H@(B@[T@]):\n    pass", ["TypeVar", "Generic"]),
    ("Generic over builtin", "T@ = TypeVar('T@')\nclass G@(list[T@]):\n    pass", ["TypeVar"]),
    ("typing.Generic dotted", "T@ = typing.TypeVar('T@')\nclass G@(typing.Generic[T@]):\n    x: T@", ["typing"]),
    ("Generic Protocol", "T@ = TypeVar('T@', covariant=True)\nclass G@(Protocol[T@]):\n    def m(self) -> T@: ...", ["TypeVar", "Protocol"]),
    ("ParamSpec", "P@ = ParamSpec('P@')\nR@ = TypeVar('R@')\ndef f@(pa: Callable[P@, R@]) -> Callable[P@, R@]:\n    return pa", ["ParamSpec", "TypeVar", "Callable"]),
    ("ParamSpec args/kwargs", "P@ = ParamSpec('P@')\ndef f@(pa: Callable[P@, int], *pb: P@.args, **pc: P@.kwargs) -> int:\n    return pa(*pb, **pc)", ["ParamSpec", "Callable"]),
    ("TypeVarTuple", "Ts@ = TypeVarTuple('Ts@')\ndef f@(*pa: Unpack[Ts@]) -> tuple[Unpack[Ts@]]:\n    return pa", ["TypeVarTuple"]),
    ("TypeVarTuple star", "Ts@ = TypeVarTuple('Ts@')\ndef f@(*pa: *Ts@) -> tuple[*Ts@]:\n    return pa", ["TypeVarTuple"]),
    ("generic alias use", "T@ = TypeVar('T@')\nA@ = list[T@]\ndef f@(pa: A@[int]) -> None:\n    pass", ["TypeVar"]),
    ("Self type", "class G@:\n    def m(self) -> typing.Self:\n        return self", ["typing"]),
]

PEP695_FORMS = [
    ("def f[T]", "def f@[T](pa: T) -> T:\n    return pa", []),
    ("def f[T: int]", "def f@[T: int](pa: T) -> T:\n    return pa", []),
    ("def f[T: (int, str)]", "def f@[T: (int, str)](pa: T) -> T:\n    return pa", []),
    ("def f[T, U]", "def f@[T, U](pa: T, pb: U) -> tuple[T, U]:\n    return (pa, pb)", []),
    ("def f[*Ts]", "def f@[*Ts](*pa: *Ts) -> tuple[*Ts]:\n    return pa", []),
    ("def f[**P]", "def f@[**P, R](pa: Callable[P, R]) -> Callable[P, R]:\n    return pa", ["Callable"]),
    ("def f[T: 'KH']", "def f@[T: KH](pa: T) -> T:\n    return pa", ["KH"]),
    ("async def f[T]", "async def f@[T](pa: T) -> T:\n    return pa", []),
    ("class C[T]", "class G@[T]:\n    def m(self, pa: T) -> T:\n        return pa", []),
    ("class C[T] attribute", "class G@[T]:\n    x: T\n    def __init__(self, pa: T) -> None:\n        self.x = pa", []),
    ("class C[T: int]", "class G@[T: int]:\n    x: T", []),
    ("class C[T: (int, str)]", "class G@[T: (int, str)]:\n    x: T", []),
    ("class C[K, V]", "class G@[K, V]:\n    def m(self, pa: K) -> V:\n        raise KeyError", []),
    ("class C[*Ts]", "class G@[*Ts]:\n    def m(self) -> tuple[*Ts]:\n        raise NotImplementedError", []),
    ("class C[**P]", "class G@[**P]:\n    def m(self, pa: Callable[P, int]) -> None:\n        pass", ["Callable"]),
    ("class C[T](Base)", "class B@[T]:\n    pass\nclass G@[T](B@[T]):\n    pass\nclass H@(B@[int]):\n    pass", []),
    ("class C[T] generic method", "class G@[T]:\n    def m[U](self, pa: T, pb: U) -> tuple[T, U]:\n        return (pa, pb)", []),
    ("class C[T] dataclass", "@dataclass\nclass G@[T]:\n    x: T", ["from_dataclasses"]),
    ("class C[T] NamedTuple", "class G@[T](NamedTuple):\n    a: T", ["NamedTuple"]),
    ("class C[T] TypedDict", "class G@[T](TypedDict):\n    a: T", ["TypedDict"]),
    ("class C[T] Protocol", "class G@[T](Protocol):\n    def m(self) -> T: ...", ["Protocol"]),
]

ALIAS_FORMS = [
    ("explicit TypeAlias", "A@: TypeAlias = list[int]", ["TypeAlias"]),
    ("explicit TypeAlias union", "A@: TypeAlias = int | None", ["TypeAlias"]),
    ("explicit TypeAlias Optional", "A@: TypeAlias = Optional[int]", ["TypeAlias", "Optional"]),
    ("explicit TypeAlias Callable", "A@: TypeAlias = Callable[[int], str]", ["TypeAlias", "Callable"]),
    ("explicit TypeAlias quoted", "A@: TypeAlias = 'list[KH]'", ["TypeAlias", "KH"]),
    ("explicit typing.TypeAlias", "A@: typing.TypeAlias = list[int]", ["typing"]),
    ("explicit TypeAlias simple name", "A@: TypeAlias = int", ["TypeAlias"]),
    ("explicit TypeAlias used", "A@: TypeAlias = dict[str, int]\ndef f@(pa: A@) -> A@:\n    return pa", ["TypeAlias"]),
    ("implicit subscript", "A@ = list[int]", []),
    ("implicit dict", "A@ = dict[str, list[int]]", []),
    ("implicit Union", "A@ = Union[int, str]", ["Union"]),
    ("implicit Optional", "A@ = Optional[int]", ["Optional"]),
    ("implicit X | Y", "A@ = int | str", []),
    ("implicit X | None", "A@ = int | None", []),
    ("implicit Callable", "A@ = Callable[[int], str]", ["Callable"]),
    ("implicit Callable ellipsis", "A@ = Callable[..., int]", ["Callable"]),
    ("implicit tuple", "A@ = tuple[int, ...]", []),
    ("implicit typing.List", "A@ = List[int]", ["List"]),
    ("implicit typing dotted", "A@ = typing.Dict[str, int]", ["typing"]),
    ("implicit Literal", "A@ = Literal['a', 'b']", ["Literal"]),
    ("implicit type[...]", "A@ = type[KH]", ["KH"]),
    ("implicit quoted arg", "A@ = list['KH']", ["KH"]),
    ("implicit builtin name", "A@ = int", []),
    ("implicit class alias", "class C@:\n    pass\nA@ = C@", []),
    ("implicit class alias used", "class C@:\n    pass\nA@ = C@\ndef f@(pa: A@) -> A@:\n    return pa", []),
    ("implicit nested class alias", "class C@:\n    class N:\n        pass\nA@ = C@.N", []),
    ("implicit stdlib class alias", "A@ = collections.OrderedDict", ["collections"]),
    ("implicit generic alias", "T@ = TypeVar('T@')\nA@ = dict[str, T@]", ["TypeVar"]),
    ("implicit used in annotation", "A@ = list[int]\ndef f@(pa: A@) -> A@:\n    return pa\nv@: A@ = []", []),
    ("function alias", "def f@(pa: int) -> int:\n    return pa\ng@ = f@", []),
    ("method alias at module level", "class C@:\n    def m(self) -> int:\n        return 1\ng@ = C@.m", []),
    ("stdlib function alias", "g@ = os.path.join", ["os.path"]),
    ("module alias", "m@ = os.path", ["os.path"]),
    ("alias in class body", "class C@:\n    A = list[int]\n    B: TypeAlias = int\n    def m(self, pa: A) -> B:\n        return 0", ["TypeAlias"]),
    ("type statement", "type A@ = list[int]", []),
    ("type statement union", "type A@ = int | None", []),
    ("type statement generic", "type A@[T] = list[T]", []),
    ("type statement bound", "type A@[T: int] = dict[str, T]", []),
    ("type statement recursive", "type A@ = list[A@] | int", []),
    ("type statement Callable", "type A@ = Callable[[int], str]", ["Callable"]),
    ("type statement forward ref", "type A@ = list[KZ@]\nclass KZ@:\n    pass", []),
    ("type statement used", "type A@ = list[int]\ndef f@(pa: A@) -> A@:\n    return pa", []),
    ("type statement in class", "class C@:\n    type A = list[int]\n    def m(self, pa: A) -> None:\n        pass", []),
]

COND_FORMS = [
    ("if sys.version_info >= (3, 8) def/else def", "if sys.version_info >= (3, 8):\n    def f@(pa: int) -> int:\n        return pa\nelse:\n    def f@(pa: int, pb: str) -> str:\n        return pb", ["sys"]),
    ("if sys.version_info < (3, 8) def/else def", "if sys.version_info < (3, 8):\n    def f@(pa: int, pb: str) -> str:\n        return pb\nelse:\n    def f@(pa: int) -> int:\n        return pa", ["sys"]),
    ("if sys.version_info >= (3, 99) def/else def", "if sys.version_info >= (3, 99):\n    def f@(pa: int, pb: str) -> str:\n        return pb\nelse:\n    def f@(pa: int) -> int:\n        return pa", ["sys"]),
    ("if sys.version_info without else", "if sys.version_info >= (3, 8):\n    def f@(pa: int) -> int:\n        return pa", ["sys"]),
    ("if sys.version_info[0] >= 3 class", "if sys.version_info[0] >= 3:\n    class C@:\n        x: int = 0\nelse:\n    class C@:\n        y: str = ''", ["sys"]),
    ("if sys.version_info variable", "if sys.version_info >= (3, 8):\n    v@: int = 1\nelse:\n    v@: str = ''", ["sys"]),
    ("if sys.platform", "if sys.platform == 'win32':\n    def f@(pa: str) -> str:\n        return pa\nelse:\n    def f@(pa: int) -> int:\n        return pa", ["sys"]),
    ("if sys.platform != ", "if sys.platform != 'win32':\n    def f@(pa: int) -> int:\n        return pa", ["sys"]),
    ("elif chain", "if sys.version_info >= (3, 99):\n    def f@() -> int:\n        return 0\nelif sys.version_info >= (3, 8):\n    def f@(pa: int) -> int:\n        return pa\nelse:\n    def f@(pa: int, pb: int) -> int:\n        return pa", ["sys"]),
    ("TYPE_CHECKING import used in annotation", "if TYPE_CHECKING:\n    from collections import OrderedDict as OD@\ndef f@(pa: 'OD@[str, int]') -> None:\n    pass", ["TYPE_CHECKING"]),
    ("typing.TYPE_CHECKING import", "if typing.TYPE_CHECKING:\n    import decimal\ndef f@(pa: 'decimal.Decimal') -> None:\n    pass", ["typing"]),
    ("TYPE_CHECKING def/else def", "if TYPE_CHECKING:\n    def f@(pa: int) -> int: ...\nelse:\n    def f@(pa):\n        return pa", ["TYPE_CHECKING"]),
    ("not TYPE_CHECKING", "if not TYPE_CHECKING:\n    def f@(pa):\n        return pa\nelse:\n    def f@(pa: int) -> int: ...", ["TYPE_CHECKING"]),
    ("TYPE_CHECKING alias", "if TYPE_CHECKING:\n    A@ = list[int]\nelse:\n    A@ = list", ["TYPE_CHECKING"]),
    ("try import except ImportError name=None", "try:\n    import json as j@\nexcept ImportError:\n    j@ = None", []),
    ("try from-import except ImportError def", "try:\n    from nonexistent_c19_mod import f@\nexcept ImportError:\n    def f@(pa: int) -> int:\n        return pa", []),
    ("try from-import except ImportError class", "try:\n    from nonexistent_c19_mod import C@\nexcept ImportError:\n    class C@:\n        x: int = 0", []),
    ("try existing from-import except def", "try:\n    from os.path import basename as f@\nexcept ImportError:\n    def f@(pa: str) -> str:\n        return pa", []),
    ("try import except ModuleNotFoundError flag", "try:\n    import nonexistent_c19_mod\n    v@ = True\nexcept ModuleNotFoundError:\n    v@ = False", []),
    ("try/except/else/finally defs", "try:\n    pass\nexcept Exception:\n    pass\nelse:\n    def g@(pa: int) -> int:\n        return pa\nfinally:\n    def h@(pa: str) -> str:\n        return pa", []),
    ("if __name__ == '__main__'", "def f@() -> None:\n    pass\nif __name__ == '__main__':\n    f@()\n    v@ = 1", []),
    ("plain runtime condition", "if CONST:\n    def f@(pa: int) -> int:\n        return pa\nelse:\n    def f@(pa: str) -> str:\n        return pa", ["CONST"]),
    ("def in with/for", "for _i in range(1):\n    def f@(pa: int) -> int:\n        return pa", []),
    ("import inside function", "def f@(pa: str) -> str:\n    import os\n    return os.path.basename(pa)", []),
]

IMPORT_FORMS = [
    ("import used in annotation", "import decimal\ndef f@(pa: decimal.Decimal) -> decimal.Decimal:\n    return pa", []),
    ("from-import used in annotation", "from decimal import Decimal\ndef f@(pa: Decimal) -> Decimal:\n    return pa", []),
    ("from-import as used in annotation", "from decimal import Decimal as D@\ndef f@(pa: D@) -> D@:\n    return pa", []),
    ("import as used in annotation", "import decimal as d@\ndef f@(pa: d@.Decimal) -> d@.Decimal:\n    return pa", []),
    ("import dotted used in annotation", "import os.path\nimport xml.dom.minidom\ndef f@(pa: xml.dom.minidom.Document) -> None:\n    pass", []),
    ("import used as base class", "import decimal\nclass C@(decimal.Decimal):\n    pass", []),
    ("from-import used as base class", "from fractions import Fraction\nclass C@(Fraction):\n    pass", []),
    ("import used only in body", "import json\ndef f@(pa: str) -> object:\n    return json.loads(pa)", []),
    ("import used in default", "import math\ndef f@(pa: float = math.pi) -> float:\n    return pa", []),
    ("unused from-import", "from textwrap import dedent", []),
    ("from-import star", "from string import *\ndef f@() -> str:\n    return ascii_letters", []),
    ("import in annotation of variable", "import pathlib\nv@: pathlib.Path = pathlib.Path('.')", []),
    ("from typing import in quoted annotation only", "from typing import Sequence\ndef f@(pa: 'Sequence[int]') -> None:\n    pass", []),
    ("collections.abc import", "from collections.abc import Mapping\ndef f@(pa: Mapping[str, int]) -> None:\n    pass", []),
    ("typing_extensions-style import", "from typing import Annotated\ndef f@(pa: Annotated[int, 'meta']) -> None:\n    pass", []),
]

FAMILY_TABLE: list[tuple[str, list]] = [
    ("func-misc", FUNC_MISC),
    ("var", VAR_FORMS),
    ("class", CLASS_FORMS),
    ("dataclass", DATACLASS_FORMS),
    ("enum", ENUM_FORMS),
    ("namedtuple", NAMEDTUPLE_FORMS),
    ("typeddict", TYPEDDICT_FORMS),
    ("overload", OVERLOAD_FORMS),
    ("generic", GENERIC_FORMS),
    ("pep695", PEP695_FORMS),
    ("alias", ALIAS_FORMS),
    ("cond", COND_FORMS),
    ("import", IMPORT_FORMS),
]


def _instantiate(tmpl: str, n: int) -> str:
    """Templates use '@' both for decorators and for the element's unique index: a decorator '@' is the
    one at the start of a (possibly indented) line; every other '@' (and every '\u00a7') is the index."""
    lines = []
    for line in tmpl.split("\n"):
        stripped = line.lstrip(" ")
        if stripped.startswith("@"):
            line = line[: len(line) - len(stripped)] + "@" + stripped[1:].replace("@", str(n))
        else:
            line = line.replace("@", str(n))
        lines.append(line.replace("\u00a7", str(n)))
    return "\n".join(lines)


def _owned_names(src: str) -> list[str]:
    """Top-level names bound by an element's source (CPython's own ast as the boring oracle)."""
    import ast

    names: list[str] = []

    def add(n: str) -> None:
        if n not in names:
            names.append(n)

    def visit(stmts: list) -> None:
        for st in stmts:
            if isinstance(st, (ast.FunctionDef, ast.AsyncFunctionDef, ast.ClassDef)):
                add(st.name)
            elif isinstance(st, ast.Assign):
                for t in st.targets:
                    for n in ast.walk(t):
                        if isinstance(n, ast.Name):
                            add(n.id)
            elif isinstance(st, (ast.AnnAssign, ast.AugAssign)):
                if isinstance(st.target, ast.Name):
                    add(st.target.id)
            elif isinstance(st, ast.TypeAlias):
                add(st.name.id)
            elif isinstance(st, ast.Import):
                for a in st.names:
                    add(a.asname or a.name.split(".")[0])
            elif isinstance(st, ast.ImportFrom):
                for a in st.names:
                    if a.name != "*":
                        add(a.asname or a.name)
            elif isinstance(st, ast.If):
                for n in ast.walk(st.test):
                    if isinstance(n, ast.NamedExpr) and isinstance(n.target, ast.Name):
                        add(n.target.id)
                visit(st.body)
                visit(st.orelse)
            elif isinstance(st, ast.Try):
                visit(st.body)
                for h in st.handlers:
                    visit(h.body)
                visit(st.orelse)
                visit(st.finalbody)
            elif isinstance(st, (ast.For, ast.While)):
                if isinstance(st, ast.For):
                    for n in ast.walk(st.target):
                        if isinstance(n, ast.Name):
                            add(n.id)
                visit(st.body)
                visit(st.orelse)
            elif isinstance(st, ast.With):
                for it in st.items:
                    if it.optional_vars is not None:
                        for n in ast.walk(it.optional_vars):
                            if isinstance(n, ast.Name):
                                add(n.id)
                visit(st.body)

    visit(ast.parse(src).body)
    return names


def elements(tier: str) -> list[Defn]:
    out: list[Defn] = []
    n = 0

    def mk(family: str, label: str, tmpl: str, needs: list[str]) -> None:
        nonlocal n
        src = _instantiate(tmpl, n)
        out.append(Defn(f"E{n:04d}", family, label, src, [], list(dict.fromkeys(needs + _needs_of(src)))))
        n += 1

    for fam, label, tmpl, needs in func_elements(tier):
        mk(fam, label, tmpl, needs)
    for ann, needs in ANN_FORMS:
        tmpl = f"def f§(pa: {ann}) -> {ann}:\n    raise NotImplementedError\nclass KA§:\n    x: {ann}"
        mk("annotation", f"annotation {ann}", tmpl, needs)
    for fam, table in FAMILY_TABLE:
        for label, tmpl, needs in table:
            mk(fam, label, tmpl, needs)
    for d in out:
        d.names = _owned_names(d.src)
    return out




# ----------------------------------------------------------------------------- whole-module elements

_ALL_BODY = """import os
from collections import OrderedDict
def fa(pa: int) -> int:
    return pa
def fb(pa):
    return pa
class Ca:
    x: int = 0
    def m(self) -> None:
        pass
class Cb:
    pass
va: int = 1
vb = 's'
def _fp() -> None:
    pass
"""

# the same module with decorated public functions that most `__all__` variants do NOT export, placed in front of
# exported definitions (state a generator carries from a skipped definition must not reach the next emitted one)
_ALL_BODY_DECO = """import functools
from contextlib import contextmanager
from typing import Iterator, overload
@functools.lru_cache(maxsize=None)
def fc(pa: int) -> int:
    return pa
@contextmanager
def fd() -> Iterator[int]:
    yield 1
@overload
def fe(pa: int) -> int: ...
@overload
def fe(pa: str) -> str: ...
def fe(pa):
    return pa
class Cc:
    @staticmethod
    def sm(pa: int) -> int:
        return pa
    @property
    def pr(self) -> int:
        return 0
""" + _ALL_BODY

ALL_VARIANTS = [
    ("no __all__", "{body}"),
    ("__all__ list", "__all__ = ['fa', 'Ca', 'va']\n{body}"),
    ("__all__ list at end", "{body}__all__ = ['fa', 'Ca', 'va']\n"),
    ("__all__ tuple", "__all__ = ('fa', 'Ca')\n{body}"),
    ("__all__ annotated", "__all__: list[str] = ['fa', 'Cb']\n{body}"),
    ("__all__ +=", "__all__ = ['fa']\n{body}__all__ += ['Ca', 'vb']\n"),
    ("__all__ append/extend", "__all__ = ['fa']\n{body}__all__.append('Ca')\n__all__.extend(['va'])\n"),
    ("__all__ concatenation", "__all__ = ['fa'] + ['Cb']\n{body}"),
    ("__all__ computed at runtime", "{body}__all__ = [n for n in dir() if n.startswith('f')]\n"),
    ("__all__ with imported class", "__all__ = ['fa', 'OrderedDict']\n{body}"),
    ("__all__ with imported module", "__all__ = ['fa', 'os']\n{body}"),
    ("__all__ with private name", "__all__ = ['fa', '_fp']\n{body}"),
    ("__all__ with only variables", "__all__ = ['va', 'vb']\n{body}"),
    ("__all__ empty", "__all__ = []\n{body}"),
    ("__all__ with class only", "__all__ = ['Ca']\n{body}"),
]

_PKG_INIT = """from .a import KA as KA
from . import b
"""
_PKG_A = """from typing import TypeVar
TA = TypeVar('TA')
class KA:
    x: int = 0
    def m(self, pa: int) -> 'KA':
        return self
def fa(pa: int) -> KA:
    return KA()
CA = 3
"""

# elements of pk.b: one per import form ('&' = package name)
REL_FORMS = [
    ("from .a import name", "from .a import KA\ndef f@(pa: KA) -> KA:\n    return pa", []),
    ("from . import module", "from . import a\ndef f@(pa: a.KA) -> 'a.KA':\n    return pa", []),
    ("from .a import name as alias", "from .a import KA as KB@\nclass C@(KB@):\n    pass", []),
    ("from . import module as alias", "from . import a as aa@\nv@: aa@.KA = aa@.KA()", []),
    ("from .a import function (re-export)", "from .a import fa", []),
    ("from .a import function as alias, called", "from .a import fa as fz@\nv@ = fz@(1)", []),
    ("from .a import constant used as default", "from .a import CA\ndef f@(pa: int = CA) -> int:\n    return pa", []),
    ("from .a import TypeVar", "from .a import TA\ndef f@(pa: TA) -> TA:\n    return pa", []),
    ("absolute import of sibling", "import &.a\ndef f@(pa: &.a.KA) -> None:\n    pass", []),
    ("absolute from-import of sibling", "from &.a import KA as KC@\ndef f@() -> KC@:\n    return KC@()", []),
    ("absolute from package import module", "from & import a as ab@\ndef f@(pa: 'ab@.KA') -> None:\n    pass", []),
    ("relative import under TYPE_CHECKING", "from typing import TYPE_CHECKING\nif TYPE_CHECKING:\n    from .a import KA as KT@\ndef f@(pa: 'KT@') -> None:\n    pass", []),
    ("relative import in try/except", "try:\n    from .nonexistent import KQ@\nexcept ImportError:\n    from .a import KA as KQ@\ndef f@(pa: KQ@) -> None:\n    pass", []),
    ("relative import inside function", "def f@() -> object:\n    from .a import KA\n    return KA()", []),
    ("subclass of relative-imported class with method", "from .a import KA as KS@\nclass C@(KS@):\n    def m(self, pa: int) -> 'C@':\n        return self", []),
]
REL_STAR = ("from .a import *", "from .a import *\ndef f@(pa: KA) -> KA:\n    return pa", [])


def _prelude(elems: list[Defn]) -> str:
    need = set()
    for e in elems:
        need.update(e.needs)
    return "".join(PRELUDE[k] + "\n" for k in PRELUDE_ORDER if k in need)


@dataclass
class Plan:
    """One generated module/package holding a list of elements (the unit of one stubgen run)."""

    name: str
    family: str
    kind: str  # batch | module | package
    elems: list[Defn]
    fixed: dict[str, str] = field(default_factory=dict)  # extra files (package skeleton)

    def elem_module(self) -> str:
        return f"{self.name}.b" if self.kind == "package" else self.name

    def target(self) -> list[str]:
        return ["-p", self.name] if self.kind == "package" else ["-m", self.name]

    def files(self, elems: list[Defn] | None = None) -> dict[str, str]:
        elems = self.elems if elems is None else elems
        if self.kind == "module":
            return {f"{self.name}.py": elems[0].src if elems else ""}
        body = _prelude(elems) + "".join(e.src + "\n" for e in elems)
        if self.kind == "package":
            out = {f"{self.name}/{k}": v for k, v in self.fixed.items()}
            out[f"{self.name}/b.py"] = body
            return out
        return {f"{self.name}.py": body}

    def to_json(self, elems: list[Defn] | None = None) -> dict:
        elems = self.elems if elems is None else elems
        return {
            "name": self.name,
            "family": self.family,
            "kind": self.kind,
            "fixed": self.fixed,
            "elems": [vars(e) for e in elems],
        }

    @staticmethod
    def from_json(d: dict) -> "Plan":
        return Plan(d["name"], d["family"], d["kind"], [Defn(**e) for e in d["elems"]], d.get("fixed", {}))


def plans(tier: str) -> list[Plan]:
    els = elements(tier)
    out: list[Plan] = []
    size = {"func": 60}
    by_family: dict[str, list[Defn]] = {}
    for e in els:
        by_family.setdefault(e.family, []).append(e)
    for fam, fl in by_family.items():
        n = size.get(fam, 30)
        nb = max(1, -(-len(fl) // n))
        per = -(-len(fl) // nb)
        for k in range(nb):
            chunk = fl[k * per : (k + 1) * per]
            if chunk:
                out.append(Plan(f"c19_{fam.replace('-', '_')}_{k}", fam, "batch", chunk))
    nxt = len(els)
    for k, (label, tmpl) in enumerate(ALL_VARIANTS):
        src = tmpl.format(body=_ALL_BODY)
        d = Defn(f"E{nxt:04d}", "all", label, src, _owned_names(src), [])
        nxt += 1
        out.append(Plan(f"c19_all_{k}", "all", "module", [d]))
    rel: list[Defn] = []
    for label, tmpl, needs in REL_FORMS:
        src = _instantiate(tmpl, nxt).replace("&", "c19_pk_0")
        rel.append(Defn(f"E{nxt:04d}", "relimport", label, src, _owned_names(src), needs))
        nxt += 1
    out.append(Plan("c19_pk_0", "relimport", "package", rel, {"__init__.py": _PKG_INIT, "a.py": _PKG_A}))
    src = _instantiate(REL_STAR[1], nxt).replace("&", "c19_pk_1")
    star = Defn(f"E{nxt:04d}", "relimport", REL_STAR[0], src, _owned_names(src), [])
    out.append(Plan("c19_pk_1", "relimport", "package", [star], {"__init__.py": _PKG_INIT, "a.py": _PKG_A}))
    nxt += 1
    for k, (label, tmpl) in enumerate(ALL_VARIANTS):
        src = tmpl.format(body=_ALL_BODY_DECO)
        d = Defn(f"E{nxt:04d}", "all", label + " / decorated non-exported definitions first", src, _owned_names(src), [])
        nxt += 1
        out.append(Plan(f"c19_alld_{k}", "all", "module", [d]))
    return out
