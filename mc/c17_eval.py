"""C17 evaluation seam: one configuration -> real mypy.main.process_options in a scratch cwd.

`evaluate(case)` materialises the case's config file(s) in this process's scratch directory, calls
the REAL `mypy.main.process_options` (real argparse, real parse_config_file), then does what
`mypy.build` does with the result before it type-checks a module:
    options.process_error_codes(...)          (build.py: "Validate error codes after plugins...")
    options.clone_for_module(m)               (build.py State.__init__)
    parse_mypy_comments(get_mypy_comments(src), opts); opts.apply_changes(changes)
                                              (build.py State.apply_inline_configuration)
and returns canonical `Options.snapshot()`s (as a diff against the no-configuration baseline).

"rejected" = mypy itself said the source cannot express the setting: exit status 2, anything written
to the stderr stream handed to process_options, an error from process_error_codes, or an error
returned by parse_mypy_comments.
"""

from __future__ import annotations

import io
import os
import shutil
import sys
from typing import Any

from mc.common import scratch

CONFIG_FILES = ["mypy.ini", ".mypy.ini", "setup.cfg", "pyproject.toml", "cfg.ini", "cfg.toml"]
# snapshot fields that describe the SOURCE rather than the setting
INTRINSIC_G = {"config_file", "files", "modules", "packages"}
INTRINSIC_M = INTRINSIC_G | {"per_module_options", "ignore_missing_imports_per_module"}

_cwd: str | None = None
_base: dict[str, Any] = {}


def canon(v: Any) -> Any:
    from mypy.errorcodes import ErrorCode

    if isinstance(v, ErrorCode):
        return v.code
    if isinstance(v, (set, frozenset)):
        return sorted(canon(x) for x in v)
    if isinstance(v, (list, tuple)):
        return [canon(x) for x in v]
    if isinstance(v, dict):
        return {str(k): canon(x) for k, x in v.items()}
    if isinstance(v, str):
        # paths made absolute by mypy contain this process's scratch cwd
        return v.replace(_cwd, "<cwd>") if _cwd and _cwd in v else v
    if isinstance(v, (bool, int, float, type(None))):
        return v
    return repr(v)


def workdir() -> str:
    """Per-process scratch cwd with a small source tree and a repository boundary (.git) so that the
    config-file discovery of mypy never walks above it."""
    global _cwd
    if _cwd is None or not os.path.isdir(_cwd):
        d = scratch("c17", f"w{os.getpid()}")
        for sub in (".git", "a", "pkg2", "home"):
            os.makedirs(os.path.join(d, sub), exist_ok=True)
        for rel in ("t.py", "u.py", "m.py", "lib.py", "a/__init__.py", "a/b.py", "pkg2/__init__.py"):
            with open(os.path.join(d, rel), "w") as f:
                f.write("x = 1\n")
        _cwd = d
    return _cwd


def _own_environment() -> None:
    import mypy.defaults

    for k in ("MYPY_CACHE_DIR", "MYPY_NUM_WORKERS", "MYPYPATH", "MYPY_CONFIG_FILE_DIR", "XDG_CONFIG_HOME", "PYODIDE"):
        os.environ.pop(k, None)
    os.environ["HOME"] = os.path.join(workdir(), "home")
    mypy.defaults.USER_CONFIG_FILES[:] = []  # no user-level config can leak in


def materialise(files: dict[str, str]) -> str:
    d = workdir()
    for n in CONFIG_FILES:
        p = os.path.join(d, n)
        if n not in files and os.path.exists(p):
            os.unlink(p)
    for n, text in files.items():
        with open(os.path.join(d, n), "w") as f:
            f.write(text)
    return d


def evaluate(case: dict[str, Any]) -> dict[str, Any]:
    """case: {"args": [...], "files": {name: text}, "modules": [module names], "inline": text|None}

    Returns {"status": "ok"|"rejected", "complaint": str, "G": {...}, "M": {module: {...}},
             "targets": [[path, module], ...]} with full canonical snapshots."""
    import mypy.main as mm
    from mypy.config_parser import parse_mypy_comments
    from mypy.fscache import FileSystemCache
    from mypy.util import get_mypy_comments

    _own_environment()
    d = materialise(case.get("files") or {})
    os.chdir(d)
    so, se = io.StringIO(), io.StringIO()
    old = sys.stdout, sys.stderr
    sys.stdout, sys.stderr = io.StringIO(), io.StringIO()  # process_options print()s a few warnings
    try:
        try:
            targets, options = mm.process_options(list(case["args"]), stdout=so, stderr=se, fscache=FileSystemCache())
        except SystemExit as e:
            return {"status": "rejected", "complaint": f"exit {e.code}: " + se.getvalue().strip()[-300:]}
        complaints = [se.getvalue().strip()] if se.getvalue().strip() else []
        errs: list[str] = []
        options.process_error_codes(error_callback=errs.append)
        complaints += errs
        out: dict[str, Any] = {
            "G": canon(options.snapshot()) if not case.get("module_fields") else {},
            "targets": [[canon(t.path), t.module] for t in targets],  # -p/-m give absolute paths under the scratch cwd
            "M": {},
        }
        for m in case.get("modules") or []:
            o = options.clone_for_module(m)
            if case.get("inline"):
                flags = get_mypy_comments(case["inline"])
                if not flags:
                    complaints.append("inline text has no '# mypy: ' comment")
                changes, cerrs = parse_mypy_comments(flags, o)
                complaints += [f"inline:{ln}: {msg}" for ln, msg in cerrs]
                o = o.apply_changes(changes)
            if case.get("module_fields"):  # cheap projection for the bulk lanes
                out["M"][m] = {f: canon(getattr(o, f)) for f in case["module_fields"]}
            else:
                out["M"][m] = canon(o.snapshot())
        out["status"] = "rejected" if complaints else "ok"
        out["complaint"] = " | ".join(complaints)[:400]
        return out
    finally:
        sys.stdout, sys.stderr = old


def dead_fields() -> list[str]:
    """Options attributes that nothing outside option processing ever reads (asked from the source
    tree: no identifier token with that name in mypy/ or mypyc/ outside config_parser.py, the option
    processing functions of main.py and the attribute's own initialisation in options.py).  Such a field is an INPUT of process_options
    (e.g. no_site_packages, consumed into python_executable) and cannot influence diagnostics."""
    import glob
    import inspect
    import re

    import mypy.main as mm
    from collections import Counter

    from mypy.options import Options

    tok: Counter[str] = Counter()
    import mypy

    top = os.path.dirname(os.path.dirname(os.path.abspath(mypy.__file__)))  # the tree under test
    for root in (os.path.join(top, "mypy"), os.path.join(top, "mypyc")):
        for path in glob.glob(root + "/**/*.py", recursive=True):
            rel = os.path.relpath(path, top)
            if "/test/" in path or rel == "mypy/config_parser.py":
                continue
            try:
                text = open(path, encoding="utf-8").read()
            except OSError:
                continue
            if rel == "mypy/main.py":  # option processing itself does not count as a reader
                for fn in (mm.process_options, mm.infer_python_executable, mm.define_options):
                    try:
                        text = text.replace(inspect.getsource(fn), "")
                    except (OSError, TypeError):  # e.g. a monkey-patched function: keep its text counted
                        pass
            tok.update(re.findall(r"[A-Za-z_][A-Za-z0-9_]*", text))
    return sorted(k for k in Options().snapshot() if tok[k] <= 1)


def baseline(module: str) -> dict[str, Any]:
    if module not in _base:
        r = evaluate({"args": ["t.py"], "files": {}, "modules": [module]})
        assert r["status"] == "ok", r
        _base[module] = {"G": r["G"], "M": r["M"][module], "targets": r["targets"]}
    return _base[module]


def diff(snap: dict[str, Any], base: dict[str, Any], drop: set[str]) -> dict[str, Any]:
    return {k: v for k, v in snap.items() if k not in drop and v != base.get(k, "<absent>")}


def cleanup() -> None:
    global _cwd
    if _cwd:
        shutil.rmtree(_cwd, ignore_errors=True)
        _cwd = None


# --------------------------------------------------------------------------- config file writers


def ini_text(sections: list[tuple[str, dict[str, str]]]) -> str:
    """sections: [(section name, {key: literal})] in file order."""
    out = []
    for name, kv in sections:
        out.append(f"[{name}]")
        for k, v in kv.items():
            out.append(f"{k} = {v}")
        out.append("")
    return "\n".join(out)


def toml_text(glob: dict[str, str] | None, overrides: list[tuple[str, dict[str, str]]]) -> str:
    """glob: {key: TOML literal} for [tool.mypy]; overrides: [(module pattern, {key: TOML literal})]."""
    out = ["[tool.mypy]"]
    for k, v in (glob or {}).items():
        out.append(f"{k} = {v}")
    out.append("")
    for pat, kv in overrides:
        out.append("[[tool.mypy.overrides]]")
        out.append(f'module = "{pat}"')
        for k, v in kv.items():
            out.append(f"{k} = {v}")
        out.append("")
    return "\n".join(out)
