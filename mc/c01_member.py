"""C01 oracle: structural membership  value ∈ static type  (boring on purpose).

`member(v, t, env)` answers True / False / None.  None = "cannot decide" (counted as
`undecided`, never flagged).  The relation only ever reads a value (no iteration of
iterators, no calls), and never consults mypy's subtype machinery: it is isinstance /
equality / len / hasattr on the CPython value against the *shape* of the mypy type.

Numeric promotion (PEP 484): int (hence bool) is accepted where float is expected, int and
float where complex is expected.
"""

from __future__ import annotations

import builtins
import collections.abc as cabc
import importlib
import types as pytypes
from typing import Any

from mypy.types import (
    AnyType,
    CallableType,
    Instance,
    LiteralType,
    NoneType,
    Overloaded,
    TupleType,
    TypedDictType,
    TypeType,
    TypeVarType,
    UninhabitedType,
    UnionType,
    UnpackType,
    get_proper_type,
)

# modules the generated programs may legitimately mention (never imports arbitrary names)
_IMPORTABLE = {
    "enum", "types", "collections", "collections.abc", "_collections_abc", "dataclasses", "abc",
    "typing", "typing_extensions", "numbers", "contextlib", "functools", "itertools", "operator",
}
_TYPING_TO_ABC = {
    "Sequence", "MutableSequence", "Iterable", "Iterator", "Collection", "Container", "Sized",
    "Hashable", "Reversible", "Mapping", "MutableMapping", "Generator", "Awaitable", "Coroutine",
    "KeysView", "ValuesView", "ItemsView", "Callable",
}
_ABC_RENAMES = {"AbstractSet": "Set", "MutableSet": "MutableSet"}
# concrete containers whose elements may be read without side effects
_READABLE = (list, tuple, set, frozenset, dict, str, range, type({}.keys()), type({}.values()))

_UNRESOLVED = object()


class Env:
    """Resolution of mypy TypeInfos to runtime classes for one generated module."""

    def __init__(self, modname: str, ns: dict[str, Any]) -> None:
        self.modname = modname
        self.ns = ns
        self._cache: dict[str, Any] = {}

    def runtime_class(self, info: Any) -> Any:
        fn = info.fullname
        hit = self._cache.get(fn, None)
        if hit is None:
            hit = self._resolve(info)
            self._cache[fn] = hit
        return hit

    def _resolve(self, info: Any) -> Any:
        mod, fn = info.module_name, info.fullname
        qual = fn[len(mod) + 1:] if fn.startswith(mod + ".") else info.name
        if mod == self.modname:
            return self._walk(self.ns, qual, is_dict=True)
        if mod == "builtins":
            if qual == "function":
                return _UNRESOLVED  # handled by caller (callable)
            if qual == "ellipsis":
                return type(Ellipsis)
            return getattr(builtins, qual, _UNRESOLVED) if "." not in qual else _UNRESOLVED
        if mod == "typing":
            if qual in _TYPING_TO_ABC:
                return getattr(cabc, qual)
            if qual in _ABC_RENAMES:
                return getattr(cabc, _ABC_RENAMES[qual])
        if mod in _IMPORTABLE:
            try:
                m = importlib.import_module(mod)
            except Exception:
                return _UNRESOLVED
            return self._walk(m, qual, is_dict=False)
        return _UNRESOLVED

    @staticmethod
    def _walk(root: Any, qual: str, is_dict: bool) -> Any:
        cur = root
        for i, part in enumerate(qual.split(".")):
            if i == 0 and is_dict:
                if part not in cur:
                    return _UNRESOLVED
                cur = cur[part]
            else:
                if not hasattr(cur, part):
                    return _UNRESOLVED
                cur = getattr(cur, part)
        return cur if isinstance(cur, type) else _UNRESOLVED


def _all(results: Any) -> bool | None:
    und = False
    for r in results:
        if r is False:
            return False
        if r is None:
            und = True
    return None if und else True


def _any(results: Any) -> bool | None:
    und = False
    for r in results:
        if r is True:
            return True
        if r is None:
            und = True
    return None if und else False


def _isinstance_promo(v: Any, cls: type) -> bool:
    if isinstance(v, cls):
        return True
    if cls is float:
        return isinstance(v, int)
    if cls is complex:
        return isinstance(v, (int, float))
    return False


def _issubclass_promo(c: type, cls: type) -> bool:
    if issubclass(c, cls):
        return True
    if cls is float:
        return issubclass(c, int)
    if cls is complex:
        return issubclass(c, (int, float))
    return False


def member(v: Any, t: Any, env: Env, depth: int = 0) -> bool | None:
    if depth > 12:
        return None
    t = get_proper_type(t)
    if isinstance(t, AnyType):
        return None
    if isinstance(t, NoneType):
        return v is None
    if isinstance(t, UninhabitedType):
        return False  # no value inhabits Never
    if isinstance(t, UnionType):
        return _any(member(v, it, env, depth + 1) for it in t.items)
    if isinstance(t, LiteralType):
        return _literal(v, t, env)
    if isinstance(t, TupleType):
        return _tuple(v, t, env, depth)
    if isinstance(t, Instance):
        return _instance(v, t, env, depth)
    if isinstance(t, (CallableType, Overloaded)):
        return _callable(v, t, env)
    if isinstance(t, TypeType):
        return _typetype(v, t.item, env, depth)
    if isinstance(t, TypeVarType):
        if t.values:
            return _any(member(v, it, env, depth + 1) for it in t.values)
        return member(v, t.upper_bound, env, depth + 1)
    if isinstance(t, TypedDictType):
        if not isinstance(v, dict):
            return False
        if not t.required_keys <= set(v):
            return False
        if not set(v) <= set(t.items):
            return None  # extra keys are legal through structural subtyping
        return _all(member(v[k], t.items[k], env, depth + 1) for k in v)
    return None  # ParamSpec, TypeVarTuple, Partial, Deleted, Erased, ...


def _literal(v: Any, t: LiteralType, env: Env) -> bool | None:
    info = t.fallback.type
    if info.is_enum:
        cls = env.runtime_class(info)
        if cls is _UNRESOLVED:
            return None
        if not isinstance(t.value, str) or t.value not in getattr(cls, "__members__", {}):
            return None
        return v is cls.__members__[t.value]
    fb = info.fullname
    if fb == "builtins.bytes":
        return None  # LiteralType stores the str form of bytes literals
    if fb not in ("builtins.int", "builtins.str", "builtins.bool"):
        return None
    return type(v) is type(t.value) and v == t.value


def _tuple(v: Any, t: TupleType, env: Env, depth: int) -> bool | None:
    cls: Any = tuple
    if t.partial_fallback.type.fullname != "builtins.tuple":  # NamedTuple / tuple subclass
        cls = env.runtime_class(t.partial_fallback.type)
        if cls is _UNRESOLVED:
            cls = tuple
    if not isinstance(v, cls) or not isinstance(v, tuple):
        return False
    if any(isinstance(get_proper_type(it), UnpackType) or isinstance(it, UnpackType) for it in t.items):
        return None
    if len(v) != len(t.items):
        return False
    return _all(member(e, it, env, depth + 1) for e, it in zip(v, t.items))


def _elements(v: Any) -> Any:
    """Elements of a readable concrete container (keys for dict), else None."""
    if type(v) in _READABLE:
        return list(v)
    return None


def _instance(v: Any, t: Instance, env: Env, depth: int) -> bool | None:
    info = t.type
    fn = info.fullname
    if fn == "builtins.object":
        return True
    if fn == "builtins.function":
        return callable(v)
    if info.is_intersection:
        return _all(member(v, b, env, depth + 1) for b in info.bases)
    cls = env.runtime_class(info)
    if info.is_protocol and (cls is _UNRESOLVED or getattr(cls, "_is_protocol", False)):
        # structural: every protocol member must be present on the value
        ok = all(_has_member(v, m) for m in info.protocol_members)
        if not ok:
            return False
        return _args(v, t, env, depth, nominal=None)
    if cls is _UNRESOLVED:
        return None
    if not _isinstance_promo(v, cls):
        return False
    return _args(v, t, env, depth, nominal=cls)


def _has_member(v: Any, name: str) -> bool:
    try:
        return hasattr(v, name)
    except Exception:
        return True


def _args(v: Any, t: Instance, env: Env, depth: int, nominal: Any) -> bool | None:
    """Type-argument part of an Instance whose class part already holds."""
    if not t.args:
        return True
    fn = t.type.fullname
    if fn == "builtins.type":
        return True if isinstance(v, type) else False
    if any(isinstance(get_proper_type(a), UnpackType) or isinstance(a, UnpackType) for a in t.args):
        return None
    one = {"builtins.list", "builtins.set", "builtins.frozenset", "builtins.tuple", "typing.Sequence",
           "typing.MutableSequence", "typing.Iterable", "typing.Collection", "typing.Container",
           "typing.AbstractSet", "typing.MutableSet", "typing.Reversible", "builtins.range"}
    two = {"builtins.dict", "typing.Mapping", "typing.MutableMapping"}
    if fn in one and len(t.args) == 1:
        els = _elements(v)
        if els is None:
            return None
        return _all(member(e, t.args[0], env, depth + 1) for e in els)
    if fn in two and len(t.args) == 2:
        if type(v) is not dict:
            return None
        return _all([member(k, t.args[0], env, depth + 1) for k in v] +
                    [member(x, t.args[1], env, depth + 1) for x in v.values()])
    return True  # user generics / other stdlib generics: class part holds, arguments unobservable (class-only)


def _callable(v: Any, t: Any, env: Env) -> bool | None:
    if not callable(v):
        return False
    if isinstance(t, CallableType) and t.is_type_obj():
        if not isinstance(v, type):
            return False
        ret = get_proper_type(t.ret_type)
        if isinstance(ret, Instance):
            cls = env.runtime_class(ret.type)
            if cls is not _UNRESOLVED and not ret.type.is_intersection:
                return _issubclass_promo(v, cls)
        return None
    return True  # parameter / return types of a callable value are not observable: class part only


def _typetype(v: Any, item: Any, env: Env, depth: int) -> bool | None:
    if not isinstance(v, type):
        return False
    item = get_proper_type(item)
    if isinstance(item, AnyType):
        return True
    if isinstance(item, NoneType):
        return v is type(None)
    if isinstance(item, UnionType):
        return _any(_typetype(v, it, env, depth + 1) for it in item.items)
    if isinstance(item, TypeVarType):
        if item.values:
            return _any(_typetype(v, it, env, depth + 1) for it in item.values)
        return _typetype(v, item.upper_bound, env, depth + 1)
    if isinstance(item, TupleType):
        item = item.partial_fallback
    if isinstance(item, Instance):
        if item.type.fullname == "builtins.object":
            return True
        if item.type.is_intersection:
            return _all(_typetype(v, b, env, depth + 1) for b in item.type.bases)
        cls = env.runtime_class(item.type)
        if item.type.is_protocol and (cls is _UNRESOLVED or getattr(cls, "_is_protocol", False)):
            return None
        if cls is _UNRESOLVED:
            return None
        return _issubclass_promo(v, cls)
    return None


def precision(v: Any, t: Any, env: Env) -> str:
    """'full' when the verdict covered the whole type, 'class-only' when type arguments /
    callable signatures were not observable (reported in coverage, never flagged)."""
    t = get_proper_type(t)
    if isinstance(t, (CallableType, Overloaded)):
        return "class-only"
    if isinstance(t, Instance) and t.args and t.type.fullname not in (
            "builtins.list", "builtins.set", "builtins.frozenset", "builtins.tuple", "builtins.dict"):
        return "class-only"
    return "full"
