"""C19 oracles: drivers for stubgen / mypy-on-the-stub / stubtest (each in its own forked child) and
the structural faithfulness comparison (source AST vs stub AST, CPython's `ast` on both sides).

Nothing here re-implements stubgen: the structural oracle only *reads* the two ASTs and compares
names and (normalised) annotation text.
"""

from __future__ import annotations

import ast
import contextlib
import io
import os
import re
import shutil
import sys
import traceback
from typing import Any

# ----------------------------------------------------------------------------- children


def _write_files(root: str, files: dict[str, str]) -> None:
    for rel, text in files.items():
        p = os.path.join(root, rel)
        os.makedirs(os.path.dirname(p), exist_ok=True)
        with open(p, "w") as f:
            f.write(text)


def child_import(job: dict) -> dict:
    """CPython itself: does the generated module import, and what is its runtime __all__?"""
    import importlib

    sys.path.insert(0, job["src"])
    os.chdir(job["src"])
    out: dict[str, Any] = {"all": {}, "error": None}
    with contextlib.redirect_stdout(io.StringIO()), contextlib.redirect_stderr(io.StringIO()):
        for m in job["modules"]:
            try:
                mod = importlib.import_module(m)
            except BaseException as e:  # noqa: BLE001
                out["error"] = f"{m}: {type(e).__name__}: {e}"
                return out
            a = getattr(mod, "__all__", None)
            out["all"][m] = None if a is None else [str(x) for x in a]
    return out


def child_stubgen(job: dict) -> dict:
    """Real stubgen: mypy.stubgen.parse_options + generate_stubs, exactly as the CLI main() does."""
    import multiprocessing

    import mypy.stubgen as sg

    # a real `stubgen` process is a non-daemonic main process; this child was forked from a daemonic pool
    # worker and would not be allowed to start stubgen's own ModuleInspect helper process
    multiprocessing.current_process()._config["daemon"] = False  # type: ignore[attr-defined]
    sys.path.insert(0, job["src"])
    os.chdir(job["src"])
    out_dir = job["out"]
    buf_o, buf_e = io.StringIO(), io.StringIO()
    res: dict[str, Any] = {"crash": None, "stubs": {}}
    # stubgen's helper processes (forkserver, resource tracker) inherit fd 2: keep their chatter out of the log
    sys.stderr.flush()
    devnull = os.open(os.devnull, os.O_WRONLY)
    os.dup2(devnull, 2)
    try:
        with contextlib.redirect_stdout(buf_o), contextlib.redirect_stderr(buf_e):
            opts = sg.parse_options(job["flags"] + ["-q", "-o", out_dir] + job["target"])
            sg.generate_stubs(opts)
    except SystemExit as e:
        res["crash"] = f"SystemExit: {e}"
    except BaseException as e:  # noqa: BLE001
        res["crash"] = f"{type(e).__name__}: {e}\n" + traceback.format_exc()[-1500:]
    res["stdout"] = buf_o.getvalue()[-2000:]
    res["stderr"] = buf_e.getvalue()[-2000:]
    for dp, _dn, fn in os.walk(out_dir):
        for f in sorted(fn):
            if f.endswith(".pyi"):
                p = os.path.join(dp, f)
                with open(p) as fh:
                    res["stubs"][os.path.relpath(p, out_dir)] = fh.read()
    return res


def _stub_module(rel: str) -> str:
    mod = rel[: -len(".pyi")].replace(os.sep, ".")
    if mod.endswith(".__init__"):
        mod = mod[: -len(".__init__")]
    return mod


def child_typecheck(job: dict) -> dict:
    """mypy.build.build on the stubs alone, bundled typeshed, default options, warm stdlib cache."""
    from mypy import build
    from mypy.errors import CompileError
    from mypy.modulefinder import BuildSource
    from mypy.options import Options

    os.chdir(job["out"])
    opts = Options()
    opts.incremental = True
    opts.cache_dir = job["cache"]
    opts.show_traceback = True
    sources = [BuildSource(rel, _stub_module(rel), None) for rel in sorted(job["stubs"])]
    try:
        with contextlib.redirect_stdout(io.StringIO()), contextlib.redirect_stderr(io.StringIO()):
            r = build.build(sources, opts)
        return {"errors": list(r.errors), "crash": None}
    except CompileError as e:
        return {"errors": list(e.messages), "crash": None}
    except BaseException as e:  # noqa: BLE001
        return {"errors": [], "crash": f"{type(e).__name__}: {e}\n" + traceback.format_exc()[-1500:]}


def child_stubtest(job: dict) -> dict:
    """Real stubtest: mypy.stubtest.parse_options + test_stubs, runtime package importable via sys.path."""
    import mypy.stubtest as st

    sys.path.insert(0, job["src"])
    os.chdir(job["out"])
    buf_o, buf_e = io.StringIO(), io.StringIO()
    rc: Any = None
    crash = None
    try:
        with contextlib.redirect_stdout(buf_o), contextlib.redirect_stderr(buf_e):
            rc = st.test_stubs(st.parse_options([job["name"], "--concise"]))
    except SystemExit as e:
        crash = f"SystemExit: {e}"
    except BaseException as e:  # noqa: BLE001
        crash = f"{type(e).__name__}: {e}\n" + traceback.format_exc()[-1500:]
    return {"rc": rc, "crash": crash, "stdout": buf_o.getvalue(), "stderr": buf_e.getvalue()[-2000:]}


def warm_cache(cache_dir: str, work: str) -> None:
    from mypy import build
    from mypy.modulefinder import BuildSource
    from mypy.options import Options

    os.makedirs(work, exist_ok=True)
    p = os.path.join(work, "c19_warm.pyi")
    with open(p, "w") as f:
        f.write(
            "import sys, abc, enum, dataclasses, collections, collections.abc, functools, contextlib, typing\n"
            "import typing_extensions, _typeshed, os.path, decimal, fractions, types, pathlib, json, math\n"
        )
    opts = Options()
    opts.incremental = True
    opts.cache_dir = cache_dir
    r = build.build([BuildSource(p, "c19_warm", None)], opts)
    if r.errors:
        raise RuntimeError(f"warm-up build reported errors: {r.errors[:3]}")


# ----------------------------------------------------------------------------- attribution helpers

_TOP_RE = re.compile(r"^(?:async\s+def|def|class|type)\s+([A-Za-z_][A-Za-z_0-9]*)|^([A-Za-z_][A-Za-z_0-9]*)\s*(?::|=)")


def owner_by_line(stub: str) -> list[str | None]:
    """For every line (index 0 = line 1) the top-level name of the stub statement it belongs to.

    Text based (works for stubs that do not parse).  Decorator lines belong to the next statement,
    import lines and comments belong to nobody.
    """
    lines = stub.split("\n")
    owners: list[str | None] = [None] * len(lines)
    cur: str | None = None
    pending: list[int] = []
    for i, ln in enumerate(lines):
        if not ln.strip():
            owners[i] = cur if (i + 1 < len(lines) and lines[i + 1][:1] in (" ", "\t")) else None
            continue
        if ln[0] in " \t":
            owners[i] = cur
            continue
        if ln.startswith("@"):
            pending.append(i)
            cur = None
            continue
        m = _TOP_RE.match(ln)
        if m and not ln.startswith(("import ", "from ")):
            cur = m.group(1) or m.group(2)
        elif ln.startswith(("import ", "from ")):
            # an import line belongs to the (first) name it binds: `from m import a as b, c` -> b
            names = re.findall(r"(?:import|,)\s+([\w.]+)(?:\s+as\s+(\w+))?", ln)
            cur = next(((al or nm.split(".")[0]) for nm, al in names), None)
            owners[i] = cur
            cur = None
            for j in pending:
                owners[j] = None
            pending = []
            continue
        else:
            cur = None
        owners[i] = cur
        for j in pending:
            owners[j] = cur
        pending = []
    return owners


_MSG_RE = re.compile(r"^(?P<file>[^:\n]+\.pyi):(?P<line>\d+)(?::\d+)*: (?P<sev>error|note|warning): (?P<msg>.*)$")


def parse_mypy_errors(errors: list[str]) -> list[tuple[str | None, int, str]]:
    """-> [(stub relpath | None, line, message incl. [code])] for error lines (notes skipped)."""
    out: list[tuple[str | None, int, str]] = []
    for e in errors:
        m = _MSG_RE.match(e)
        if not m:
            if ": note: " in e:
                continue
            out.append((None, 0, e))
            continue
        if m.group("sev") != "error":
            continue
        out.append((m.group("file"), int(m.group("line")), m.group("msg")))
    return out


_KEEP_QUOTED = {
    "_abc", "builtin_function_or_method", "method_descriptor", "wrapper_descriptor", "dataclasses._DataclassParams",
    "async def", "__init__", "__new__", "__all__", "type[...]",
}


def normalise_reason(text: str, module_names: list[str]) -> str:
    """Cause-level form of a message: generated identifiers (they all carry a numeric suffix), parameter /
    member names and module names are abstracted; the wording of the diagnostic is kept."""
    for m in sorted(module_names, key=len, reverse=True):
        text = text.replace(m + ".", "").replace(m, "M")
    text = re.sub(r"0x[0-9a-f]+", "ADDR", text)
    text = re.sub(r"\bp[a-e]\b", "P", text)
    text = re.sub(r"\d+", "\x01", text)

    def quoted(m: re.Match) -> str:
        inner = m.group(1)
        if inner in _KEEP_QUOTED:
            return m.group(0)
        if re.fullmatch(r"typing\.[A-Z]\w*", inner):
            return '"typing.<type parameter>"'
        if re.fullmatch(r"[\w.@\x01]+", inner):
            return '"X"'
        return m.group(0)

    text = re.sub(r'"([^"\n]{1,80})"', quoted, text)
    text = re.sub(r"\b[A-Za-z_]\w*\x01\w*(\.\w+)*", "X", text)  # remaining generated identifiers
    text = re.sub(r"; did you mean .*?\?", "", text)
    text = re.sub(r"runtime type .*$", "runtime type <T>", text)
    text = re.sub(r"stub parameter type .*?\. ", "stub parameter type <T>. ", text)
    text = text.replace("\x01", "N")
    text = re.sub(r"\s+", " ", text).strip()
    return text[:160]


# ----------------------------------------------------------------------------- structural oracle

_STRIP_PREFIXES = ("typing.", "typing_extensions.", "builtins.", "collections.abc.", "_typeshed.", "types.")
_REPL = {
    "List": "list", "Dict": "dict", "Tuple": "tuple", "Set": "set", "FrozenSet": "frozenset", "Type": "type",
    "Deque": "collections.deque", "DefaultDict": "collections.defaultdict", "OrderedDict": "collections.OrderedDict",
    "Text": "str",
}
REQUIRED_DUNDERS = {
    "__init__", "__call__", "__new__", "__enter__", "__exit__", "__len__", "__iter__", "__getitem__", "__eq__",
    "__lt__", "__hash__", "__contains__", "__bool__", "__post_init__", "__init_subclass__",
}


class _Imports:
    """local name -> fully qualified name, from the file's own import statements (any nesting)."""

    def __init__(self, tree: ast.AST, module: str, is_pkg_init: bool) -> None:
        self.map: dict[str, str] = {}
        pkg = module if is_pkg_init else module.rpartition(".")[0]
        for n in ast.walk(tree):
            if isinstance(n, ast.Import):
                for a in n.names:
                    if a.asname:
                        self.map[a.asname] = a.name
            elif isinstance(n, ast.ImportFrom):
                base = n.module or ""
                if n.level:
                    parts = pkg.split(".") if pkg else []
                    up = n.level - 1
                    parts = parts[: len(parts) - up] if up else parts
                    base = ".".join(parts + ([base] if base else []))
                for a in n.names:
                    if a.name != "*":
                        self.map[a.asname or a.name] = f"{base}.{a.name}"

    def resolve(self, dotted: str) -> str:
        head, _, rest = dotted.partition(".")
        if head in self.map:
            return self.map[head] + ("." + rest if rest else "")
        return dotted


class _Norm:
    def __init__(self, imports: _Imports, module: str) -> None:
        self.imports = imports
        self.module = module

    def name(self, dotted: str) -> str:
        full = self.imports.resolve(dotted)
        changed = True
        while changed:
            changed = False
            for p in _STRIP_PREFIXES + (self.module + ".",):
                if full.startswith(p) and len(full) > len(p):
                    full = full[len(p):]
                    changed = True
        return _REPL.get(full, full)

    def n(self, node: ast.AST | None) -> str:
        if node is None:
            return ""
        if isinstance(node, ast.Constant):
            if isinstance(node.value, str):
                try:
                    inner = ast.parse(node.value.strip(), mode="eval").body
                except SyntaxError:
                    return repr(node.value)
                return self.n(inner)
            if node.value is Ellipsis:
                return "..."
            return repr(node.value)
        if isinstance(node, (ast.Name, ast.Attribute)):
            try:
                return self.name(ast.unparse(node))
            except Exception:  # noqa: BLE001
                return ast.unparse(node)
        if isinstance(node, ast.BinOp) and isinstance(node.op, ast.BitOr):
            return f"{self.n(node.left)} | {self.n(node.right)}"
        if isinstance(node, ast.Subscript):
            base = self.n(node.value)
            sl = node.slice
            items = list(sl.elts) if isinstance(sl, ast.Tuple) else [sl]
            if base == "Optional" and len(items) == 1:
                return f"{self.n(items[0])} | None"
            if base == "Union":
                return " | ".join(self.n(i) for i in items)
            if base == "Literal":
                return f"Literal[{', '.join(self.lit(i) for i in items)}]"
            if base == "Annotated" and items:
                return f"Annotated[{self.n(items[0])}, ...]"
            if isinstance(sl, ast.Tuple) and not items:
                return f"{base}[()]"
            return f"{base}[{', '.join(self.n(i) for i in items)}]"
        if isinstance(node, ast.List):
            return "[" + ", ".join(self.n(i) for i in node.elts) + "]"
        if isinstance(node, ast.Tuple):
            return "(" + ", ".join(self.n(i) for i in node.elts) + ")"
        if isinstance(node, ast.Starred):
            return "*" + self.n(node.value)
        return ast.unparse(node)

    def lit(self, node: ast.AST) -> str:
        # inside Literal[...] strings are values, not forward references
        if isinstance(node, ast.Constant):
            return repr(node.value)
        return self.n(node)


class _Scope:
    def __init__(self) -> None:
        self.funcs: dict[str, list[ast.FunctionDef | ast.AsyncFunctionDef]] = {}
        self.classes: dict[str, list[ast.ClassDef]] = {}
        self.vars: dict[str, list[ast.expr]] = {}
        self.bound: set[str] = set()
        self.imported: set[str] = set()


def _collect(stmts: list[ast.stmt]) -> _Scope:
    sc = _Scope()

    def visit(body: list[ast.stmt]) -> None:
        for st in body:
            if isinstance(st, (ast.FunctionDef, ast.AsyncFunctionDef)):
                sc.funcs.setdefault(st.name, []).append(st)
                sc.bound.add(st.name)
            elif isinstance(st, ast.ClassDef):
                sc.classes.setdefault(st.name, []).append(st)
                sc.bound.add(st.name)
            elif isinstance(st, ast.AnnAssign) and isinstance(st.target, ast.Name):
                sc.vars.setdefault(st.target.id, []).append(st.annotation)
                sc.bound.add(st.target.id)
            elif isinstance(st, ast.Assign):
                for t in st.targets:
                    for n in ast.walk(t):
                        if isinstance(n, ast.Name):
                            sc.bound.add(n.id)
            elif isinstance(st, ast.TypeAlias):
                sc.bound.add(st.name.id)  # type: ignore[attr-defined]
            elif isinstance(st, ast.Import):
                for a in st.names:
                    sc.imported.add(a.asname or a.name.split(".")[0])
            elif isinstance(st, ast.ImportFrom):
                for a in st.names:
                    sc.imported.add(a.asname or a.name)
            elif isinstance(st, ast.If):
                visit(st.body)
                visit(st.orelse)
            elif isinstance(st, ast.Try):
                visit(st.body)
                for h in st.handlers:
                    visit(h.body)
                visit(st.orelse)
                visit(st.finalbody)
            elif isinstance(st, (ast.For, ast.While, ast.With)):
                visit(st.body)
                visit(getattr(st, "orelse", []))

    visit(stmts)
    sc.bound |= sc.imported
    return sc


def _deco_names(fn: ast.FunctionDef | ast.AsyncFunctionDef) -> list[str]:
    out = []
    for d in fn.decorator_list:
        if isinstance(d, ast.Call):
            d = d.func
        try:
            out.append(ast.unparse(d))
        except Exception:  # noqa: BLE001
            pass
    return out


def _is_overload(fn: Any) -> bool:
    return any(d.split(".")[-1] == "overload" for d in _deco_names(fn))


def _prop_role(fn: Any) -> str | None:
    for d in _deco_names(fn):
        last = d.split(".")[-1]
        if last in ("property", "cached_property", "abstractproperty"):
            return "getter"
        if last in ("setter", "deleter") and "." in d:
            return last
    return None


def _args(fn: Any) -> list[ast.arg]:
    a = fn.args
    out = list(a.posonlyargs) + list(a.args)
    if a.vararg:
        out.append(a.vararg)
    out += list(a.kwonlyargs)
    if a.kwarg:
        out.append(a.kwarg)
    return out


def _short(text: str) -> str:
    """Every dotted name reduced to its last component (qualification is not what is being compared)."""
    return re.sub(r"[A-Za-z_][\w]*(?:\.[A-Za-z_]\w*)+", lambda m: m.group(0).rsplit(".", 1)[1], text)


def _same(want: str, got: str) -> bool:
    return want == got or _short(want) == _short(got)


def _how(want: str, got: str | None) -> str:
    """Kind of annotation change (cause-level wording; the exact texts go to the raw record)."""
    if got is None:
        return f"annotation dropped [`{want}` -> nothing]"
    if "[" in want and _short(got) == _short(want.split("[", 1)[0]):
        return f"annotation lost its type arguments [`{want}` -> `{got}`]"
    if "Incomplete" in got:
        return f"annotation replaced by Incomplete [`{want}` -> `{got}`]"
    return f"annotation changed [`{want}` -> `{got}`]"


def _match_func(src: Any, stub: Any, ns: _Norm, nt: _Norm) -> list[str]:
    """Mismatches between one source def and one stub def (only what the source spelled out)."""
    out = []
    stub_args = {a.arg: a for a in _args(stub)}
    for a in _args(src):
        if a.annotation is None:
            continue
        sa = stub_args.get(a.arg)
        want = ns.n(a.annotation)
        if sa is None:
            out.append(f"annotated parameter is missing from the stub signature [`{a.arg}: {want}`]")
        elif sa.annotation is None:
            out.append(_how(want, None))
        else:
            got = nt.n(sa.annotation)
            if not _same(want, got):
                out.append(_how(want, got))
    if src.returns is not None:
        want = ns.n(src.returns)
        if stub.returns is None:
            out.append(_how(want, None))
        else:
            got = nt.n(stub.returns)
            if not _same(want, got):
                out.append(_how(want, got))
    return out


def _var_ok(want: str, got: str) -> bool:
    if _same(want, got):
        return True
    if want == "Final" and got.startswith("Final["):
        return True  # stubgen: "Final without type argument is invalid in stubs"
    if got.startswith("ClassVar[") and got.endswith("]") and not want.startswith("ClassVar"):
        return _var_ok(want, got[len("ClassVar["):-1])  # class attribute with a value spelled as ClassVar[T]
    return False


def _compare(src: _Scope, stub: _Scope, ns: _Norm, nt: _Norm, public, path: str, out: list[tuple[str, str]]) -> None:
    top = path == ""

    def is_public(name: str) -> bool:
        if top:
            return public(name)
        return not name.startswith("_") or name in REQUIRED_DUNDERS

    for name, variants in src.funcs.items():
        if not is_public(name):
            continue
        q = path + name
        roles = [_prop_role(v) for v in variants]
        if any(r == "getter" for r in roles):
            getter = variants[roles.index("getter")]
            if name in stub.funcs:
                sg = [s for s in stub.funcs[name] if _prop_role(s) == "getter"] or stub.funcs[name][:1]
                for mm in _match_func(getter, sg[0], ns, nt):
                    out.append((q, f"property: {mm}"))
                for v, r in zip(variants, roles):
                    if r == "setter":
                        ss = [s for s in stub.funcs[name] if _prop_role(s) == "setter"]
                        if ss:
                            for mm in _match_func(v, ss[0], ns, nt):
                                out.append((q, f"property setter: {mm}"))
            elif name in stub.vars:
                if getter.returns is not None:
                    want, got = ns.n(getter.returns), nt.n(stub.vars[name][0])
                    if not _var_ok(want, got):
                        out.append((q, f"property rendered as attribute: {_how(want, got)}"))
            else:
                out.append((q, "property missing from stub"))
            continue
        kind = "function" if top else "method"
        if name not in stub.funcs:
            if name in stub.imported and name in src.imported:
                continue  # one branch of the source imports the name; the stub shows that binding
            if name in stub.classes or name in stub.vars or name in stub.bound:
                out.append((q, f"{kind} is not a def in the stub"))
            else:
                out.append((q, f"{kind} missing from stub"))
            continue
        ov = [v for v in variants if _is_overload(v)]
        need_all = ov if ov else None
        if need_all is not None:
            for v in need_all:
                best = min((_match_func(v, s, ns, nt) for s in stub.funcs[name]), key=len)
                for mm in best:
                    out.append((q, f"overload: {mm}"))
        else:
            best = min((_match_func(v, s, ns, nt) for v in variants for s in stub.funcs[name]), key=len)
            for mm in best:
                out.append((q, f"{kind}: {mm}"))
    for name, cvariants in src.classes.items():
        if not is_public(name):
            continue
        q = path + name
        if name not in stub.classes:
            if name in stub.imported and name in src.imported:
                continue
            out.append((q, "class missing from stub" if name not in stub.bound else "class is not a class in the stub"))
            continue
        # conditional redefinitions: compare against the variant that matches best
        results = []
        for cv in cvariants:
            for sv in stub.classes[name]:
                sub: list[tuple[str, str]] = []
                _compare(_collect(cv.body), _collect(sv.body), ns, nt, public, q + ".", sub)
                results.append(sub)
        out.extend(min(results, key=len))
    for name, anns in src.vars.items():
        if not is_public(name):
            continue
        q = path + name
        kind = "variable" if top else "class variable"
        wants = [ns.n(a) for a in anns]
        if name in stub.vars:
            gots = [nt.n(a) for a in stub.vars[name]]
            if not any(_var_ok(w, g) for w in wants for g in gots):
                out.append((q, f"{kind}: {_how(wants[0], gots[0])}"))
        elif name in stub.funcs and any(_prop_role(s) for s in stub.funcs[name]):
            pass  # attribute represented as a property
        elif name in stub.bound:
            out.append((q, f"{kind}: {_how(wants[0], None)}"))
        else:
            out.append((q, f"annotated {kind} missing from stub"))


def structural(src_text: str, stub_text: str, module: str, is_pkg_init: bool, runtime_all: list[str] | None) -> list[tuple[str, str]]:
    """-> [(qualified name, mismatch)]: what the source spelled out and the stub does not show."""
    st = ast.parse(src_text)
    tt = ast.parse(stub_text)
    ns = _Norm(_Imports(st, module, is_pkg_init), module)
    nt = _Norm(_Imports(tt, module, is_pkg_init), module)
    if runtime_all is not None:
        allset = set(runtime_all)
        public = lambda n: n in allset  # noqa: E731
    else:
        public = lambda n: not n.startswith("_")  # noqa: E731
    out: list[tuple[str, str]] = []
    _compare(_collect(st.body), _collect(tt.body), ns, nt, public, "", out)
    return out


def copy_cache(src: str, dst: str) -> None:
    shutil.copytree(src, dst)
