"""C16 frames lane (S3): mypy.ipc.IPCBase.read_bytes / frame_from_buffer under every segmentation.

The byte stream of a frame sequence is produced by the REAL `IPCBase.write_bytes` (on a capturing
fake connection), cut into every composition (all 2^(L-1) ways to split L bytes into consecutive
non-empty reads), and fed back through the REAL `IPCBase.read_bytes` on a fake connection whose
`recv` hands out the next chunk, then EOF.  Reference = the list of payloads that was written.
"""

from __future__ import annotations

import socket
import struct
import threading
from typing import Any, Iterator

from mypy.ipc import HEADER_SIZE, IPCBase, ready_to_read


class FeedConn:
    """A connection whose recv returns the next enumerated chunk, then b'' (EOF) forever."""

    __slots__ = ("chunks", "i", "eof_reads", "bad_size")

    def __init__(self, chunks: list[bytes]) -> None:
        self.chunks = chunks
        self.i = 0
        self.eof_reads = 0
        self.bad_size = False

    def recv(self, size: int) -> bytes:
        if self.i < len(self.chunks):
            c = self.chunks[self.i]
            self.i += 1
            if len(c) > size:
                self.bad_size = True
            return c
        self.eof_reads += 1
        return b""


class CaptureConn:
    def __init__(self) -> None:
        self.data = bytearray()

    def sendall(self, b: bytes) -> None:
        self.data.extend(b)


def frame_stream(payloads: list[bytes]) -> bytes:
    """Bytes the real write_bytes puts on the wire for these payloads."""
    w = IPCBase("w", None)
    cap = CaptureConn()
    w.connection = cap  # type: ignore[assignment]
    for p in payloads:
        w.write_bytes(p)
    return bytes(cap.data)


def payload_of(family: str, index: int, n: int) -> bytes:
    if family == "distinct":
        return bytes(16 * (index + 1) + j + 1 for j in range(n))
    if family == "headerlike":
        # looks like a length header announcing 1 byte (or a prefix of one): a reader that loses
        # alignment reads it as a header
        return (b"\x00\x00\x00\x01")[4 - n :]
    raise ValueError(family)


def length_tuples(max_frames: int, max_len: int) -> Iterator[tuple[int, ...]]:
    import itertools

    for nf in range(1, max_frames + 1):
        yield from itertools.product(range(1, max_len + 1), repeat=nf)


def read_all(stream_chunks: list[bytes], max_reads: int) -> tuple[list[bytes], FeedConn, IPCBase]:
    """Call the real read_bytes until it reports 'closed' (b''); return the frames delivered."""
    r = IPCBase("r", None)
    conn = FeedConn(stream_chunks)
    r.connection = conn  # type: ignore[assignment]
    got: list[bytes] = []
    for _ in range(max_reads):
        b = r.read_bytes()
        if not b:
            break
        got.append(b)
    else:
        got.append(b"<NO-CLOSE>")
    return got, conn, r


def check_stream(stream: bytes, expected: list[bytes], mask_lo: int, mask_hi: int) -> dict[str, Any]:
    """All segmentations with composition masks in [mask_lo, mask_hi) of `stream`, then EOF.

    mask bit i set <=> there is a cut between byte i and byte i+1.
    """
    L = len(stream)
    n = 0
    multi = 0  # segmentations in which one read carried >= 2 complete frames
    split_header = 0  # segmentations that cut inside a header
    bad: list[dict[str, Any]] = []
    # frame boundaries (absolute offsets) to classify segmentations
    bounds = []
    off = 0
    for p in expected:
        bounds.append((off, off + HEADER_SIZE, off + HEADER_SIZE + len(p)))
        off += HEADER_SIZE + len(p)
    header_cut_mask = 0
    for (h0, h1, _e) in bounds:
        for c in range(h0 + 1, h1):
            if c - 1 < L - 1:
                header_cut_mask |= 1 << (c - 1)
    max_reads = len(expected) + 2
    for mask in range(mask_lo, mask_hi):
        chunks = []
        start = 0
        m = mask
        pos = 1
        while pos < L:
            if m & 1:
                chunks.append(stream[start:pos])
                start = pos
            m >>= 1
            pos += 1
        if L:
            chunks.append(stream[start:L])
        got, conn, r = read_all(chunks, max_reads)
        n += 1
        if mask & header_cut_mask:
            split_header += 1
        # a chunk [s, e) containing two complete frames
        s = 0
        for c in chunks:
            e = s + len(c)
            k = sum(1 for (h0, _h1, fe) in bounds if h0 >= s and fe <= e)
            if k >= 2:
                multi += 1
                break
            s = e
        if got != expected or conn.bad_size:
            if len(bad) < 3:
                bad.append({"stream": stream.hex(), "chunks": [c.hex() for c in chunks],
                            "expected": [p.hex() for p in expected], "got": [g.hex() for g in got]})
    return {"n": n, "multi": multi, "split_header": split_header, "bad": bad}


# ----------------------------------------------------------------------------- pmap items


def run_item(item: dict[str, Any]) -> dict[str, Any]:
    """item kinds:
    full:  {"kind":"full","family","lens","lo","hi"}            complete stream, masks [lo,hi)
    eof:   {"kind":"eof","family","lens"}                        every truncation offset x all segmentations
    over:  {"kind":"over","family","lens"}                       oversized header after the frames
    """
    fam = item["family"]
    lens = item["lens"]
    payloads = [payload_of(fam, i, n) for i, n in enumerate(lens)]
    stream = frame_stream(payloads)
    # sanity of the reference itself: header is the documented !L length prefix
    ref = b"".join(struct.pack("!L", len(p)) + p for p in payloads)
    out: dict[str, Any] = {"item": item, "n": 0, "multi": 0, "split_header": 0, "bad": [],
                           "framing_matches_doc": stream == ref, "cuts": 0, "mid_header_cuts": 0,
                           "mid_body_cuts": 0}
    if item["kind"] == "full":
        r = check_stream(stream, payloads, item["lo"], item["hi"])
        for k in ("n", "multi", "split_header"):
            out[k] += r[k]
        out["bad"] += [dict(b, case="full") for b in r["bad"]]
    elif item["kind"] == "eof":
        # EOF after c bytes for every c in 0..L-1: only the frames that are complete may be delivered
        ends = []
        off = 0
        for p in payloads:
            ends.append((off, off + HEADER_SIZE, off + HEADER_SIZE + len(p)))
            off += HEADER_SIZE + len(p)
        for c in range(0, len(stream)):
            complete = [p for p, (_h0, _h1, e) in zip(payloads, ends) if e <= c]
            pre = stream[:c]
            out["cuts"] += 1
            for (h0, h1, e) in ends:
                if h0 < c < h1:
                    out["mid_header_cuts"] += 1
                elif h1 <= c < e:
                    out["mid_body_cuts"] += 1
            if c == 0:
                got, _conn, _r = read_all([], len(payloads) + 2)
                out["n"] += 1
                if got != []:
                    out["bad"].append({"case": "eof", "cut": 0, "got": [g.hex() for g in got]})
                continue
            r = check_stream(pre, complete, 0, 1 << (c - 1))
            out["n"] += r["n"]
            out["bad"] += [dict(b, case="eof", cut=c) for b in r["bad"]]
    elif item["kind"] == "over":
        # header announcing more than will ever arrive (incl. 2^32-1), some body bytes, then EOF
        for announced in (len(stream) + 1000, 0x7FFFFFFF, 0xFFFFFFFF):
            for body in (b"", b"x", b"xyz"):
                whole = stream + struct.pack("!L", announced) + body
                r = check_stream(whole, payloads, 0, 1 << (len(whole) - 1))
                out["n"] += r["n"]
                out["bad"] += [dict(b, case="over", announced=announced) for b in r["bad"]]
    return out


# ----------------------------------------------------------------------------- real socketpair


def socketpair_lane(lens_list: list[tuple[int, ...]], big: int) -> dict[str, Any]:
    """write_bytes -> read_bytes over a real AF_UNIX socketpair.

    The writer side is the real write_bytes (sendall); the reader's fragmentation is controlled by
    the `size` argument of read_bytes (recv(size)): every uniform read size 1..L and the default.
    Plus one payload larger than the socket buffer (writer in a thread, several real recv calls).
    """
    n = 0
    bad: list[dict[str, Any]] = []
    ready_checks = 0
    for lens in lens_list:
        payloads = [payload_of("distinct", i, k) for i, k in enumerate(lens)]
        L = sum(HEADER_SIZE + k for k in lens)
        for size in list(range(1, L + 1)) + [None]:
            a, b = socket.socketpair(socket.AF_UNIX, socket.SOCK_STREAM)
            try:
                w = IPCBase("w", None)
                w.connection = a
                r = IPCBase("r", None)
                r.connection = b
                b.settimeout(60)
                for p in payloads:
                    w.write_bytes(p)
                a.close()  # EOF after the last frame
                got = []
                for _ in range(len(payloads) + 2):
                    x = r.read_bytes() if size is None else r.read_bytes(size)
                    if not x:
                        break
                    got.append(x)
                    # a connection holding buffered bytes must be reported readable without waiting
                    if r.buffer:
                        ready_checks += 1
                        if ready_to_read([r], timeout=0) != [0]:
                            bad.append({"case": "ready_to_read", "lens": lens, "size": size})
                n += 1
                if got != payloads:
                    bad.append({"case": "socketpair", "lens": list(lens), "size": size,
                                "got": [g.hex() for g in got]})
            finally:
                b.close()
                try:
                    a.close()
                except OSError:
                    pass
    # one large payload (exceeds the socket buffer, forces many recv calls and a blocking sendall)
    a, b = socket.socketpair(socket.AF_UNIX, socket.SOCK_STREAM)
    recvs = 0
    try:
        payload = bytes((i * 7 + 3) % 251 for i in range(big))
        w = IPCBase("w", None)
        w.connection = a
        r = IPCBase("r", None)
        b.settimeout(120)

        class Counting:
            def recv(self, size: int) -> bytes:
                nonlocal recvs
                recvs += 1
                return b.recv(size)

        r.connection = Counting()  # type: ignore[assignment]

        def writer() -> None:
            w.write_bytes(payload)
            w.write_bytes(b"tail")
            a.close()

        t = threading.Thread(target=writer)
        t.start()
        g1 = r.read_bytes()
        g2 = r.read_bytes()
        g3 = r.read_bytes()
        t.join(120)
        n += 1
        if g1 != payload or g2 != b"tail" or g3 != b"":
            bad.append({"case": "socketpair-large", "len1": len(g1), "g2": g2.hex(), "g3": g3.hex()})
    finally:
        b.close()
    return {"n": n, "bad": bad, "ready_checks": ready_checks, "large_recvs": recvs}
