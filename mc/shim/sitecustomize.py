"""Worker-side instrumentation for C07/C04-parallel (model-checking harness of /verif).

Inert unless PYTHON_MYPY_VERIF=1 AND VERIF_CTL names a control socket.  It is put on PYTHONPATH
only for `python -m mypy.build_worker` subprocesses started by the harness; nothing in /repo is
edited.  It wraps three functions of mypy.build_worker.worker with GATES: the worker announces
`at-gate(kind)` on the control socket and blocks until the controller (running inside the
coordinator's patched ready_to_read) releases it.  Only one worker runs between two gates, so an
execution is a deterministic function of the controller's choice list.
"""
import os
import sys

if os.environ.get("PYTHON_MYPY_VERIF") == "1" and os.environ.get("VERIF_CTL"):
    import importlib.abc
    import importlib.util

    def _patch_worker(w):
        import json
        import re
        import socket

        idx = -1
        for a in sys.argv:
            m = re.search(r"\.mypy_worker\.[0-9a-f]+\.(\d+)\.json", a)
            if m:
                idx = int(m.group(1))
        state = {"sock": None, "iface_gated": False, "impl_gated": False}

        def ctl():
            if state["sock"] is None:
                s = socket.socket(socket.AF_UNIX, socket.SOCK_STREAM)
                s.connect(os.environ["VERIF_CTL"])
                state["sock"] = s
            return state["sock"]

        def gate(kind, info=None):
            s = ctl()
            s.sendall((json.dumps({"w": idx, "gate": kind, "info": info}) + "\n").encode())
            b = s.recv(1)
            if not b:
                os._exit(97)  # controller went away

        orig_if = w.process_stale_scc_interface
        orig_impl = w.process_stale_scc_implementation
        orig_send = w.timed_send

        def p_if(graph, scc, manager, from_cache):
            if not state["iface_gated"]:
                state["iface_gated"] = True
                gate("iface", sorted(scc.mod_ids))
            return orig_if(graph, scc, manager, from_cache=from_cache)

        def p_impl(graph, stale, manager, meta_files):
            if not state["impl_gated"]:
                state["impl_gated"] = True
                gate("impl", list(stale))
            return orig_impl(graph, stale, manager, meta_files)

        def p_send(manager, server, message):
            gate("send-iface" if message.is_interface else "send-impl",
                 {"sccs": list(message.scc_ids), "blocker": message.blocker is not None})
            if not message.is_interface:
                state["iface_gated"] = False
                state["impl_gated"] = False
            r = orig_send(manager, server, message)
            # tell the controller that the frame is now in the socket (notification, no wait)
            ctl().sendall((json.dumps({"w": idx, "gate": "sent", "info": None}) + "\n").encode())
            return r

        w.process_stale_scc_interface = p_if
        w.process_stale_scc_implementation = p_impl
        w.timed_send = p_send

        if os.environ.get("VERIF_OPLOG"):
            # C04 parallel lane: number this worker's store operations, log them, and apply a fault plan
            # VERIF_FAULT = {"w": idx, "kill_before": k} | {"w": idx, "kill_after": k} | {"w": idx, "fail": [k, ...]}
            import mypy.metastore as ms0

            plan = json.loads(os.environ.get("VERIF_FAULT") or "{}")
            mine = plan.get("w") == idx
            counter = {"n": 0}
            logfd = os.open(os.path.join(os.environ["VERIF_OPLOG"], f"w{idx}.log"),
                            os.O_WRONLY | os.O_CREAT | os.O_APPEND, 0o644)

            def tick(kind, name):
                k = counter["n"]
                counter["n"] += 1
                os.write(logfd, (json.dumps([k, kind, name]) + "\n").encode())
                if mine and plan.get("kill_before") == k:
                    os._exit(137)
                return k

            def after(k):
                if mine and plan.get("kill_after") == k:
                    os._exit(137)

            for cls0 in (ms0.FilesystemMetadataStore, ms0.SqliteMetadataStore):
                def wrap(cls_):
                    o_write, o_remove, o_commit = cls_.write, cls_.remove, cls_.commit

                    def write(self, name, data, mtime=None):
                        k = tick("write", name)
                        if mine and k in (plan.get("fail") or []):
                            after(k)
                            return False
                        r = o_write(self, name, data, mtime)
                        after(k)
                        return r

                    def remove(self, name):
                        k = tick("remove", name)
                        try:
                            return o_remove(self, name)
                        finally:
                            after(k)

                    def commit(self):
                        k = tick("commit", "")
                        r = o_commit(self)
                        after(k)
                        return r

                    cls_.write, cls_.remove, cls_.commit = write, remove, commit
                    if cls_ is ms0.SqliteMetadataStore:
                        o_cp = cls_.commit_path

                        def commit_path(self, name):
                            k = tick("commit_path", name)
                            r = o_cp(self, name)
                            after(k)
                            return r

                        cls_.commit_path = commit_path
                wrap(cls0)

        if os.environ.get("VERIF_STORE_CLOCK") == "content":
            # owned clock for cache records written by workers (same rule as the coordinator's proxy)
            import zlib

            import mypy.build as mb
            import mypy.metastore as ms

            def det_mtime(data):
                return float(1_600_000_000 + zlib.crc32(data) % 1_000_000)

            for cls in (ms.FilesystemMetadataStore, ms.SqliteMetadataStore):
                def mk(orig):
                    def write(self, name, data, mtime=None):
                        return orig(self, name, data, det_mtime(data) if mtime is None else mtime)
                    return write
                cls.write = mk(cls.write)

    class _Finder(importlib.abc.MetaPathFinder):
        busy = False

        def find_spec(self, name, path, target=None):
            if name != "mypy.build_worker.worker" or _Finder.busy:
                return None
            _Finder.busy = True
            try:
                spec = importlib.util.find_spec(name)
            finally:
                _Finder.busy = False
            if spec is None or spec.loader is None:
                return None
            orig = spec.loader

            class _Loader(importlib.abc.Loader):
                def create_module(self, spec_):
                    return orig.create_module(spec_)

                def exec_module(self, module):
                    orig.exec_module(module)
                    _patch_worker(module)

            spec.loader = _Loader()
            return spec

    sys.meta_path.insert(0, _Finder())
