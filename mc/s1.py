"""S1: explicit-state search over on-disk states (F = source tree, K = cache directory).

One Instance = one (universe, store, format, clock discipline) explored sequentially inside ONE
fixed absolute root (cache metas embed paths; see DESIGN C02 "fixed root").  Snapshots of K live
beside the root and are copied into it before a transition.
"""

from __future__ import annotations

import hashlib
import os
import shutil
from typing import Any

from mc import drivers
from mc.drivers import BASE_TIME, StorePlan, build_inproc, cache_listing
from mc.kernel import ExecError, run_isolated
from mc.universes import Universe

FState = tuple  # ((variant, mtime) per sorted path ..., src_idx)


class Instance:
    def __init__(
        self,
        u: Universe,
        store: str,
        fmt: str,
        workdir: str,
        clock: str = "preserving",
        overrides: dict[str, Any] | None = None,
    ) -> None:
        self.u = u
        self.store = store
        self.fmt = fmt
        self.clock = clock
        self.paths = u.paths()
        self.root = os.path.join(workdir, "w")
        self.snapdir = os.path.join(workdir, "snap")
        os.makedirs(self.root, exist_ok=True)
        os.makedirs(self.snapdir, exist_ok=True)
        self.overrides = dict(u.overrides)
        self.overrides.update(overrides or {})
        self.cold_memo: dict[Any, dict] = {}
        self.n_builds = 0
        # an empty cache snapshot
        os.makedirs(os.path.join(self.snapdir, "EMPTY"), exist_ok=True)

    # ---------------------------------------------------------------- F

    def base_mtime(self, pi: int, variant: int) -> int:
        return BASE_TIME + 1000 * (pi + 1) + 10 * variant

    def initial_F(self) -> FState:
        return tuple((0, self.base_mtime(i, 0)) for i in range(len(self.paths))) + (0,)

    def F_key(self, F: FState) -> tuple:
        """The part of F that a cold run can see (contents + command line; not mtimes)."""
        return tuple(v for v, _ in F[:-1]) + (F[-1],)

    def edits(self, F: FState, depth: int) -> list[tuple[str, FState]]:
        out: list[tuple[str, FState]] = []
        files, src = list(F[:-1]), F[-1]
        now = BASE_TIME + 500_000 + depth + 1  # monotone clock value for this edit

        def mt(pi: int, variant: int, touched: bool = False) -> int:
            if self.clock == "monotone":
                return now
            return self.base_mtime(pi, variant) + (5 if touched else 0)

        for pi, p in enumerate(self.paths):
            cur, cur_mt = files[pi]
            for v in range(len(self.u.files[p])):
                if v != cur:
                    nf = list(files)
                    nf[pi] = (v, mt(pi, v))
                    out.append((f"set {p}={v}", tuple(nf) + (src,)))
            if p in self.u.touch and self.u.files[p][cur] is not None:
                nm = mt(pi, cur, True)
                if nm != cur_mt:
                    nf = list(files)
                    nf[pi] = (cur, nm)
                    out.append((f"touch {p}", tuple(nf) + (src,)))
        for name, ed in self.u.multi.items():
            nf = list(files)
            changed = False
            for p, v in ed.items():
                pi = self.paths.index(p)
                if nf[pi][0] != v:
                    nf[pi] = (v, mt(pi, v))
                    changed = True
            if changed:
                out.append((f"multi {name}", tuple(nf) + (src,)))
        for s in range(len(self.u.sources)):
            if s != src and self._sources_exist(files, s):
                out.append((f"cmdline {s}", tuple(files) + (s,)))
        # drop edits that would remove a file named on the command line
        return [(l, nF) for l, nF in out if self._sources_exist(list(nF[:-1]), nF[-1])]

    def _sources_exist(self, files: list, s: int) -> bool:
        for path, _mod in self.u.sources[s]:
            if path in self.u.files:
                v = files[self.paths.index(path)][0]
                if self.u.files[path][v] is None:
                    return False
        return True

    def file_map(self, F: FState) -> dict[str, Any]:
        fm: dict[str, Any] = {}
        for pi, p in enumerate(self.paths):
            v, mt = F[pi]
            text = self.u.files[p][v]
            fm[p] = None if text is None else (text, mt)
        return fm

    def materialize(self, F: FState) -> None:
        drivers.write_tree(self.root, self.file_map(F))
        drivers.install_fixture(self.root, self.u.fixture, self.u.typing_fixture)

    # ---------------------------------------------------------------- K

    def restore(self, khash: str) -> None:
        c = os.path.join(self.root, "cache")
        if os.path.isdir(c):
            shutil.rmtree(c)
        src = os.path.join(self.snapdir, khash)
        if khash != "EMPTY" or os.listdir(src):
            shutil.copytree(src, c, copy_function=shutil.copy2)

    def listing(self) -> list[tuple]:
        return cache_listing(self.root, "cache", self.store, self.fmt)

    def snapshot(self) -> str:
        """Canonical hash of K; stores one representative directory per distinct K."""
        lst = self.listing()
        c0 = os.path.join(self.root, "cache")
        if not lst and os.path.isdir(c0):
            # vacuity guard: an empty listing must really mean "no records"
            n_raw = 0
            for d, _s, fs in os.walk(c0):
                for f in fs:
                    if self.store == "sqlite" and f.endswith(".db"):
                        import sqlite3

                        con = sqlite3.connect(os.path.join(d, f))
                        try:
                            n_raw += con.execute("SELECT COUNT(*) FROM files2").fetchone()[0]
                        except sqlite3.Error:
                            pass
                        con.close()
                    elif self.store == "fs" and (".data." in f or ".meta" in f):
                        n_raw += 1
            if n_raw:
                raise RuntimeError(f"cache has {n_raw} raw records but the store API lists none (harness bug)")
        h = hashlib.sha1(repr(lst).encode()).hexdigest()[:20]
        dst = os.path.join(self.snapdir, h)
        if not os.path.isdir(dst):
            c = os.path.join(self.root, "cache")
            if os.path.isdir(c):
                shutil.copytree(c, dst, copy_function=shutil.copy2)
            else:
                os.makedirs(dst)
        return h

    # ---------------------------------------------------------------- runs

    def spec(self, F: FState, *, cold: bool, plan: StorePlan | None = None, extra: dict | None = None) -> dict:
        ov = dict(self.overrides)
        ov.update(extra or {})
        return {
            "root": self.root,
            "sources": list(self.u.sources[F[-1]]),
            "cache_dir": None if cold else "cache",
            "store": self.store,
            "fmt": self.fmt,
            "overrides": ov,
            "per_module": self.u.per_module,
            "plan": plan,
        }

    def run(self, spec: dict, timeout: float = 120.0) -> dict:
        self.n_builds += 1
        try:
            return run_isolated(build_inproc, spec, timeout=timeout)
        except ExecError as e:
            return {"exec_error": e.kind, "info": e.info, "messages": [f"<{e.kind}>"], "blocker": None,
                    "crashed": e.info, "rechecked": None, "stale": None, "modules": None, "oplog": None}

    def warm(self, F: FState, plan: StorePlan | None = None, extra: dict | None = None) -> dict:
        """Run on whatever is in root/cache (caller restored it) with files F (caller materialized)."""
        return self.run(self.spec(F, cold=False, plan=plan or StorePlan("content"), extra=extra))

    def cold(self, F: FState, extra: dict | None = None) -> dict:
        key = (self.F_key(F), repr(sorted((extra or {}).items())))
        r = self.cold_memo.get(key)
        if r is None:
            self.materialize(F)
            r = self.run(self.spec(F, cold=True, extra=extra))
            self.cold_memo[key] = r
        return r

    def user_modules(self, F: FState) -> set[str]:
        out = set()
        for pi, p in enumerate(self.paths):
            if self.u.files[p][F[pi][0]] is not None:
                m = p[len("tmp/"):].rsplit(".", 1)[0].replace("/", ".")
                if m.endswith(".__init__"):
                    m = m[: -len(".__init__")]
                out.add(m)
        return out
