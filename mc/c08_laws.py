"""C08 law evaluation on the real mypy functions (runs inside forked children).

A *query* is (op, s, t) with op in OPS; its *answer* is a bool (sub / proper / same) or the string
rendering of the resulting type (join / meet).  Perturbing queries (flagged variants of the subtype
checks) are executed only to populate the subtype caches under other `SubtypeKind`s; their answers
are not compared.
"""

from __future__ import annotations

from typing import Any, Callable

OPS = ["sub", "proper", "same", "join", "meet"]
PERTURB = ["sub/ignore_promotions", "sub/always_covariant", "sub/ignore_type_params",
           "sub/ignore_declared_variance", "sub/ignore_pos_arg_names", "proper/ignore_promotions",
           "proper/erase_instances", "proper/keep_erased_types"]


def _fns() -> dict[str, Callable[[Any, Any], Any]]:
    from mypy.join import join_types
    from mypy.meet import meet_types
    from mypy.subtypes import is_proper_subtype, is_same_type, is_subtype

    return {
        "sub": is_subtype,
        "proper": is_proper_subtype,
        "same": is_same_type,
        "join": lambda s, t: join_types(s, t),
        "meet": lambda s, t: meet_types(s, t),
        "sub/ignore_promotions": lambda s, t: is_subtype(s, t, ignore_promotions=True),
        "sub/always_covariant": lambda s, t: is_subtype(s, t, always_covariant=True),
        "sub/ignore_type_params": lambda s, t: is_subtype(s, t, ignore_type_params=True),
        "sub/ignore_declared_variance": lambda s, t: is_subtype(s, t, ignore_declared_variance=True),
        "sub/ignore_pos_arg_names": lambda s, t: is_subtype(s, t, ignore_pos_arg_names=True),
        "proper/ignore_promotions": lambda s, t: is_proper_subtype(s, t, ignore_promotions=True),
        "proper/erase_instances": lambda s, t: is_proper_subtype(s, t, erase_instances=True),
        "proper/keep_erased_types": lambda s, t: is_proper_subtype(s, t, keep_erased_types=True),
    }


def answer(fns: dict, op: str, s: Any, t: Any) -> Any:
    r = fns[op](s, t)
    if op in ("join", "meet"):
        return str(r)
    return bool(r)


def reset_caches() -> None:
    from mypy.typestate import type_state

    type_state.reset_all_subtype_caches()


def cache_sizes() -> tuple[int, int]:
    from mypy.typestate import type_state

    pos = sum(len(x) for d in type_state._subtype_caches.values() for x in d.values())
    neg = sum(len(x) for d in type_state._negative_subtype_caches.values() for x in d.values())
    return pos, neg


def kind_of(t: Any, maxdepth: int = 1) -> str:
    """Coarse shape class of a type: the top-level constructor (children rendered only below `maxdepth`),
    for callables the list of argument kinds and whether names are present.  Used only to GROUP failing
    pairs into causes for reporting; it never decides whether something is a violation."""
    from mypy.types import (
        AnyType, CallableType, Instance, LiteralType, NoneType, Overloaded, ParamSpecType, TupleType,
        TypedDictType, TypeType, TypeVarType, UninhabitedType, UnionType, UnpackType, get_proper_type,
    )

    def leaf(x: Any, depth: int) -> str:
        p = get_proper_type(x)
        sub = depth < maxdepth
        if isinstance(p, Instance):
            i = p.type
            if i.fullname == "builtins.type":
                return "type"
            if i.is_protocol:
                base = "Proto"
            elif i.is_enum:
                base = "Enum"
            elif i.fullname.startswith("builtins.") or i.fullname.startswith("typing."):
                base = i.name
            else:
                base = "Inst" if not p.args else i.name
            if p.args and sub:
                return base + "[" + ",".join(leaf(a, depth + 1) for a in p.args) + "]"
            return base
        if isinstance(p, CallableType):
            if any(isinstance(a, ParamSpecType) for a in p.arg_types):
                return "Callable[P]"
            km = {0: "pos", 1: "opt", 2: "star", 3: "named", 5: "named_opt", 4: "star2"}
            ks = ",".join(
                km.get(int(k.value), "?") + (":" + leaf(a, depth + 1) if sub else "")
                for k, a in zip(p.arg_kinds, p.arg_types)
            )
            named = "+names" if any(n is not None for n in p.arg_names) else ""
            return f"Callable[{ks}{named}]" + ("->" + leaf(p.ret_type, depth + 1) if sub else "")
        if isinstance(p, Overloaded):
            return "Overloaded"
        if isinstance(p, TupleType):
            if p.partial_fallback.type.fullname != "builtins.tuple":
                return "NamedTuple"
            if any(isinstance(a, UnpackType) for a in p.items):
                return "TupleWithUnpack"
            if sub:
                return "Tuple[" + ",".join(leaf(a, depth + 1) for a in p.items) + "]"
            return f"Tuple{len(p.items)}"
        if isinstance(p, TypedDictType):
            flags = ("+readonly" if p.readonly_keys else "") + ("+nontotal" if set(p.items) - p.required_keys else "")
            return "TypedDict" + flags
        if isinstance(p, LiteralType):
            return "Literal:" + leaf(p.fallback, maxdepth)
        if isinstance(p, NoneType):
            return "None"
        if isinstance(p, UninhabitedType):
            return "Never"
        if isinstance(p, TypeType):
            return "Type[" + leaf(p.item, depth + 1) + "]" if sub else "Type"
        if isinstance(p, TypeVarType):
            return "TypeVarValues" if p.values else "TypeVarBound"
        if isinstance(p, UnionType):
            if sub:
                return "Union[" + ",".join(leaf(a, depth + 1) for a in p.items) + "]"
            return "Union"
        if isinstance(p, AnyType):
            return "Any"
        return type(p).__name__

    return leaf(t, 0)


def pair_shape(s: Any, t: Any) -> str:
    """Cause-level class of an (unordered) pair: the two top-level shapes; for callable x callable the
    RELATION between the signatures (argument kinds differ / only names differ / same shape), because
    that, not the particular kinds, is what the join/meet code paths branch on."""
    from mypy.types import CallableType, get_proper_type

    ps, pt = get_proper_type(s), get_proper_type(t)
    if isinstance(ps, CallableType) and isinstance(pt, CallableType):
        if kind_of(ps, 0) == "Callable[P]" or kind_of(pt, 0) == "Callable[P]":
            rel = "one side is a ParamSpec callable"
        elif list(ps.arg_kinds) != list(pt.arg_kinds):
            rel = "argument kinds differ"
        elif list(ps.arg_names) != list(pt.arg_names):
            rel = "same kinds, argument names differ"
        else:
            rel = "same kinds and names"
        return f"Callable x Callable ({rel})"
    k1, k2 = kind_of(ps, 0), kind_of(pt, 0)
    k1 = "Callable" if k1.startswith("Callable") else k1
    k2 = "Callable" if k2.startswith("Callable") else k2
    a, b = sorted((k1, k2))
    return f"{a} x {b}"
