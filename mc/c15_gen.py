"""C15 helper: generate the module of one-operation functions (one per operator x operand static types).

`generate()` returns (python source, specs).  The SAME source text is (a) compiled with mypyc and
(b) imported under another name by the interpreter as the reference (at run time
mypy_extensions.i64/i32/i16/u8 are plain `int()` conversions, so the interpreted functions compute on
exact Python ints).  A spec is a JSON-able dict:

    name    function name in the module
    op      operator label used in signatures ("+", "//=", "x//3", "divmod", "i64()", ...)
    ptypes  static parameter types, e.g. ["int", "i64"]
    ret     declared return type ("int", "bool", "float", "object", "i64", ..., "tuple")
    doms    operand domain name per parameter (see c15_driver.DOMAINS)
    wrap    True when the operation is u8 arithmetic that must wrap modulo 256
    count   index of the parameter that is a shift count for a fixed-width shift, or None
    src     the function's source text
    fam     operator family used in signatures ("cmp" for the six comparisons; `x += y`, `if x < y` and
            `x + 1` share the family of the plain operator); lit = "left"/"right" when one operand is a literal
    req     per parameter: the fixed-width type an int/bool operand is converted to by the operation
            (its own static type, the "sticky" native type of a mixed operation, or the target of an
            explicit/implicit conversion), else None
"""

from __future__ import annotations

FIXED = ["i64", "i32", "i16", "u8"]
RANGES = {
    "i64": (-(1 << 63), (1 << 63) - 1),
    "i32": (-(1 << 31), (1 << 31) - 1),
    "i16": (-(1 << 15), (1 << 15) - 1),
    "u8": (0, 255),
}
WIDTH = {"i64": 64, "i32": 32, "i16": 16, "u8": 8}

ARITH = ["+", "-", "*", "//", "%", "&", "|", "^", "<<", ">>"]
CMP = ["==", "!=", "<", "<=", ">", ">="]
OPNAME = {
    "+": "add", "-": "sub", "*": "mul", "//": "fdiv", "%": "mod", "&": "and", "|": "or", "^": "xor",
    "<<": "shl", ">>": "shr", "/": "tdiv", "**": "pow",
    "==": "eq", "!=": "ne", "<": "lt", "<=": "le", ">": "gt", ">=": "ge",
}
COUNT_OPS = {"<<", ">>", "**"}  # right operand restricted to the small set S
U8_WRAP_OPS = {"+", "-", "*", "<<"}  # documented: operations on u8 wrap around on overflow


def _dom(t: str) -> str:
    if t == "bool":
        return "BOOL"
    if t == "float":
        return "F"
    return "B"  # int and every fixed-width type get the full boundary set


HEADER = ["import math", "from typing import Any, Tuple", "from mypy_extensions import i64, i32, i16, u8", ""]


def module_source(specs: list[dict]) -> str:
    """A module containing just the given functions (used by replay)."""
    parts = []
    for sp in specs:
        if sp.get("prod_src") and sp["prod_src"] + "\n" not in parts:
            parts.append(sp["prod_src"] + "\n")
        parts.append(sp["src"] + "\n")
    return "\n".join(HEADER + parts) + "\n"


class Gen:
    def __init__(self) -> None:
        self.lines: list[str] = list(HEADER)
        self.specs: list[dict] = []
        self.names: set[str] = set()

    def add(self, name: str, op: str, params: list[tuple[str, str]], ret: str, body: list[str],
            doms: list[str] | None = None, wrap: bool = False, count: int | None = None,
            req: list[str | None] | None = None, fam: str | None = None, lit: str | None = None) -> None:
        assert name not in self.names, name
        self.names.add(name)
        ann = {"tuple_int": "Tuple[int, int]", "tuple_float": "Tuple[float, float]"}.get(ret, ret)
        sig = ", ".join(f"{p}: {t}" for p, t in params)
        fsrc = [f"def {name}({sig}) -> {ann}:"] + ["    " + b for b in body]
        self.lines.extend(fsrc)
        self.lines.append("")
        ptypes = [t for _, t in params]
        self.specs.append({
            "name": name, "op": op, "ptypes": ptypes, "ret": ret,
            "doms": doms or [_dom(t) for t in ptypes], "wrap": wrap, "count": count,
            "req": req or [t if t in FIXED else None for t in ptypes],
            "src": "\n".join(fsrc),
            "fam": ("cmp" if fam in CMP else fam) or op, "lit": lit,
        })


def _ret_for(op: str, lt: str, rt: str) -> str:
    """Declared return type = what mypy infers for `x op y`."""
    if op in CMP:
        return "bool"
    fixed = lt if lt in FIXED else rt if rt in FIXED else None
    if fixed:
        return fixed
    if "float" in (lt, rt):
        return "object" if op == "**" else "float"
    if op == "/":
        return "float"
    if op == "**":
        return "object"  # int.__pow__(int) is Any (negative exponents give float)
    if lt == rt == "bool" and op in ("&", "|", "^"):
        return "bool"
    return "int"


def _lit(c: int) -> str:
    return f"m{-c}" if c < 0 else str(c)


def generate() -> tuple[str, list[dict]]:
    g = Gen()
    XY = lambda lt, rt: [("x", lt), ("y", rt)]  # noqa: E731

    def binary(lt: str, rt: str, ops: list[str], aug: bool = True, cond: bool = False) -> None:
        fixed = lt if lt in FIXED else rt if rt in FIXED else None
        for op in ops:
            ret = _ret_for(op, lt, rt)
            doms = [_dom(lt), _dom(rt)]
            count = None
            if op in COUNT_OPS and rt != "float":
                doms[1] = "S" if rt != "bool" else "BOOL"
                if fixed and op != "**":
                    count = 1
            wrap = fixed == "u8" and op in U8_WRAP_OPS
            req = [fixed, fixed] if fixed else None
            g.add(f"b_{OPNAME[op]}__{lt}__{rt}", op, XY(lt, rt), ret, [f"return x {op} y"],
                  doms, wrap, count, req, fam=op)
            # augmented assignment (result must keep the static type of x)
            if aug and op not in CMP and ret == lt:
                g.add(f"a_{OPNAME[op]}__{lt}__{rt}", op + "=", XY(lt, rt), ret, [f"x {op}= y", "return x"],
                      doms, wrap, count, req, fam=op)
            if cond and op in CMP:
                g.add(f"c_{OPNAME[op]}__{lt}__{rt}", "if" + op, XY(lt, rt), "int",
                      [f"if x {op} y:", "    return 1", "return 0"], doms, req=req, fam=op)

    # ---- int / bool
    binary("int", "int", ARITH + ["/", "**"] + CMP, cond=True)
    for lt, rt in (("int", "bool"), ("bool", "int"), ("bool", "bool")):
        binary(lt, rt, ARITH + ["/", "**"] + CMP)
    # ---- fixed width: same x same, mixed with int (both directions), i64 with bool
    for t in FIXED:
        binary(t, t, ARITH + CMP, cond=True)
        binary("int", t, ARITH + CMP, aug=False)
        binary(t, "int", ARITH + CMP)
    binary("i64", "bool", ["+", "*", "&", "<<", "==", "<"], aug=False)
    binary("bool", "i64", ["+", "-", "|", "==", ">"], aug=False)
    # ---- float
    FOPS = ["+", "-", "*", "/", "//", "%", "**"]
    binary("float", "float", FOPS + CMP, cond=True)
    binary("int", "float", FOPS + CMP, aug=False)
    binary("float", "int", FOPS + CMP)

    # ---- literal operands (inline fast paths are chosen only for constants)
    def lit_right(t: str, op: str, consts: list[int]) -> None:
        for c in consts:
            ret = _ret_for(op, t, t)
            wrap = t == "u8" and op in U8_WRAP_OPS
            g.add(f"l_{OPNAME[op]}__{t}__{_lit(c)}", f"x{op}{c}", [("x", t)], ret, [f"return x {op} {c}"],
                  None, wrap, fam=op, lit="right")

    def lit_left(t: str, op: str, consts: list[int]) -> None:
        for c in consts:
            ret = _ret_for(op, t, t)
            doms = ["S"] if op in COUNT_OPS else None
            wrap = t == "u8" and op in U8_WRAP_OPS
            cs = f"({c})" if c < 0 else str(c)
            g.add(f"r_{OPNAME[op]}__{_lit(c)}__{t}", f"{c}{op}x", [("x", t)], ret, [f"return {cs} {op} x"],
                  doms, wrap, 0 if (t in FIXED and op in ("<<", ">>")) else None, fam=op, lit="left")

    for op in ["+", "-", "*"]:
        lit_right("int", op, [1, -1, 2, 3])
    for op in ["//", "%"]:
        lit_right("int", op, [1, -1, 2, -2, 3, -3, 7, 10, 0])
        lit_left("int", op, [7, -7, 1 << 62])
    for op in ["&", "|", "^"]:
        lit_right("int", op, [1, -1, 255])
    for op in ["<<", ">>"]:
        lit_right("int", op, [0, 1, 2, 31, 32, 61, 62, 63, 64])
        lit_left("int", op, [1, -1, 3])
    for op in CMP:
        lit_right("int", op, [0, 1, -1])
    lit_left("int", "-", [0, 1])
    lit_right("int", "**", [0, 1, 2, 3])
    lit_left("int", "**", [2, -2, 10])
    for t in FIXED:
        signed = t != "u8"
        neg = [-1, -2, -3, -7] if signed else []
        for op in ["//", "%"]:
            # (`x // 0` with a literal 0 on u8 does not get through the C compiler: -Werror=div-by-zero)
            lit_right(t, op, [1, 2, 3, 7, 10] + ([0] if signed else []) + neg)
            lit_left(t, op, [7, 100] + ([-7] if signed else []))
        for op in ["+", "-", "*"]:
            lit_right(t, op, [1, 2] + ([-1] if signed else []))
        lit_left(t, "-", [0, 1])
        w = WIDTH[t]
        for op in ["<<", ">>"]:
            lit_right(t, op, sorted({0, 1, 2, w // 2, w - 2, w - 1}))
            lit_left(t, op, [1, 3] + ([-1] if signed else []))
        for op in ["&", "|", "^"]:
            lit_right(t, op, [1, 127] + ([-1] if signed else [255]))
        for op in CMP:
            lit_right(t, op, [0, 1])
    for op in ["+", "-", "*", "/", "//", "%", "**"]:
        lit_right("float", op, [2, 0])
    for c in ["2.0", "0.5", "-1.5"]:
        for op in ["*", "/", "//", "%", "**"]:
            nm = c.replace(".", "p").replace("-", "m")
            g.add(f"l_{OPNAME[op]}__float__{nm}", f"x{op}{c}", [("x", "float")],
                  "object" if op == "**" else "float", [f"return x {op} {c}"], fam=op, lit="right")
            g.add(f"r_{OPNAME[op]}__{nm}__float", f"{c}{op}x", [("x", "float")],
                  "object" if op == "**" else "float", [f"return ({c}) {op} x"], fam=op, lit="left")
    for op in CMP:
        g.add(f"l_{OPNAME[op]}__float__0p0", f"x{op}0.0", [("x", "float")], "bool", [f"return x {op} 0.0"],
              fam=op, lit="right")

    # ---- unary
    for t in ["int", "bool"] + FIXED:
        ti = "int" if t == "bool" else t
        g.add(f"u_neg__{t}", "-x", [("x", t)], ti, ["return -x"], None, t == "u8")
        g.add(f"u_inv__{t}", "~x", [("x", t)], ti, ["return ~x"], None, t == "u8")
        g.add(f"u_pos__{t}", "+x", [("x", t)], ti, ["return +x"])
        g.add(f"u_not__{t}", "not x", [("x", t)], "bool", ["return not x"])
        g.add(f"u_bool__{t}", "bool()", [("x", t)], "bool", ["return bool(x)"])
        g.add(f"u_truth__{t}", "if x", [("x", t)], "int", ["if x:", "    return 1", "return 0"])
    g.add("u_abs__int", "abs()", [("x", "int")], "int", ["return abs(x)"])
    g.add("u_abs__bool", "abs()", [("x", "bool")], "int", ["return abs(x)"])
    g.add("u_bitlen__int", "bit_length()", [("x", "int")], "int", ["return x.bit_length()"])
    g.add("u_neg__float", "-x", [("x", "float")], "float", ["return -x"])
    g.add("u_pos__float", "+x", [("x", "float")], "float", ["return +x"])
    g.add("u_not__float", "not x", [("x", "float")], "bool", ["return not x"])
    g.add("u_bool__float", "bool()", [("x", "float")], "bool", ["return bool(x)"])
    g.add("u_truth__float", "if x", [("x", "float")], "int", ["if x:", "    return 1", "return 0"])
    g.add("u_abs__float", "abs()", [("x", "float")], "float", ["return abs(x)"])
    g.add("u_floor__float", "math.floor()", [("x", "float")], "int", ["return math.floor(x)"])
    g.add("u_ceil__float", "math.ceil()", [("x", "float")], "int", ["return math.ceil(x)"])
    g.add("u_negneg__int", "-(-x)", [("x", "int")], "int", ["return -(-x)"])
    g.add("u_subneg__int", "x-(-y)", XY("int", "int"), "int", ["return x - (-y)"])

    # ---- builtin functions
    g.add("f_divmod__int__int", "divmod", XY("int", "int"), "tuple_int", ["return divmod(x, y)"])
    g.add("f_divmod__float__float", "divmod", XY("float", "float"), "tuple_float", ["return divmod(x, y)"])
    g.add("f_pow__int__int", "pow()", XY("int", "int"), "object", ["return pow(x, y)"], ["B", "S"])
    g.add("f_pow__float__float", "pow()", XY("float", "float"), "object", ["return pow(x, y)"])
    g.add("f_pow__float__int", "pow()", XY("float", "int"), "float", ["return pow(x, y)"], ["F", "S"])
    g.add("f_mathpow__float__float", "math.pow()", XY("float", "float"), "float", ["return math.pow(x, y)"])

    # ---- conversions (explicit, implicit, and the argument/return boundary itself)
    for t in ["int", "bool", "float"] + FIXED:
        g.add(f"v_int__{t}", "int()", [("x", t)], "int", ["return int(x)"])
        g.add(f"v_float__{t}", "float()", [("x", t)], "float", ["return float(x)"])
        g.add(f"v_id__{t}", "identity", [("x", t)], t, ["return x"])
    for t in FIXED:
        for s in ["int", "bool", "float"] + FIXED:
            rq = [t] if s in ("int", "bool") else None
            g.add(f"v_{t}__{s}", f"{t}()", [("x", s)], t, [f"return {t}(x)"], req=rq)
        g.add(f"v_impl_{t}__int", f"implicit->{t}", [("x", "int")], t, ["return x"], req=[t])
        g.add(f"v_impl_int__{t}", "implicit->int", [("x", t)], "int", ["return x"])
        g.add(f"v_local_{t}__int", f"implicit->{t}", [("x", "int")], "int", [f"y: {t} = x", "return y"],
              req=[t])
        # int -> T -> int round trip through arithmetic with an int on the other side
        g.add(f"v_mix_{t}", f"{t}()+int", XY("int", "int"), "int", [f"return int({t}(x)) + y"],
              req=[t, None])
    g.add("v_float__floordiv_int", "float(x//y)", XY("int", "int"), "float", ["return float(x // y)"], fam="//")
    g.add("v_int__truediv", "int(x/y)", XY("int", "int"), "int", ["return int(x / y)"], fam="/")
    return "\n".join(g.lines) + "\n", g.specs


# --------------------------------------------------------------------------- two-operation chains
#
# A one-operation function returns its result to the interpreter, which boxes it: a result left in a
# non-canonical representation (e.g. a heap int holding a value that fits a short int) is invisible
# there.  Chains feed every int-producing operation into a second COMPILED operation (comparison,
# truth test, arithmetic, conversion), so the representation of the intermediate value is observed.

CHAIN_PRODUCERS: list[tuple[str, str, list[tuple[str, str]], list[str]]] = [
    # (label, expression, parameters, operand domains)
    *[(op, f"x {op} y", [("x", "int"), ("y", "int")], ["B", "S" if op in COUNT_OPS else "B"]) for op in ARITH],
    ("-x", "-x", [("x", "int")], ["B"]),
    ("~x", "~x", [("x", "int")], ["B"]),
    ("abs()", "abs(x)", [("x", "int")], ["B"]),
    ("int(float)", "int(x)", [("x", "float")], ["F"]),
    ("int(i64)", "int(x)", [("x", "i64")], ["B"]),
]
_PNAME = {"-x": "neg", "~x": "inv", "abs()": "abs", "int(float)": "intf", "int(i64)": "inti64"}

CHAIN_CONSUMERS: list[tuple[str, str, list[str], bool, str, str | None]] = [
    # (name, label, body given the intermediate `r`, needs third operand c, return type, conversion target)
    ("eq0", "r==0", ["return r == 0"], False, "bool", None),
    ("eqc", "r==c", ["return r == c"], True, "bool", None),
    ("nec", "r!=c", ["return r != c"], True, "bool", None),
    ("ltc", "r<c", ["return r < c"], True, "bool", None),
    ("truth", "if r", ["if r:", "    return 1", "return 0"], False, "int", None),
    ("not", "not r", ["return not r"], False, "bool", None),
    ("bool", "bool(r)", ["return bool(r)"], False, "bool", None),
    ("addc", "r+c", ["return r + c"], True, "int", None),
    ("andc", "r&c", ["return r & c"], True, "int", None),
    ("rsubc", "c-r", ["return c - r"], True, "int", None),
    ("neg", "-r", ["return -r"], False, "int", None),
    ("float", "float(r)", ["return float(r)"], False, "float", None),
    ("i64", "i64(r)", ["return i64(r)"], False, "i64", "i64"),
    ("i32", "i32(r)", ["return i32(r)"], False, "i32", "i32"),
    ("i16", "i16(r)", ["return i16(r)"], False, "i16", "i16"),
    ("u8", "u8(r)", ["return u8(r)"], False, "u8", "u8"),
    ("li64", "z: i64 = r", ["z: i64 = r", "return z"], False, "int", "i64"),
    ("li32", "z: i32 = r", ["z: i32 = r", "return z"], False, "int", "i32"),
]


def generate_chains() -> tuple[str, list[dict]]:
    g = Gen()
    for plabel, expr, params, doms in CHAIN_PRODUCERS:
        pn = _PNAME.get(plabel) or OPNAME[plabel]
        pref = f"p_{pn}"
        # the bare producer: its interpreted version supplies the exact intermediate value (third operands)
        g.add(pref, plabel, params, "int", [f"return {expr}"], doms, fam=plabel)
        prod_src = g.specs[-1]["src"]
        for cname, clabel, body, needs_c, ret, conv in CHAIN_CONSUMERS:
            ps = params + ([("c", "int")] if needs_c else [])
            ds = doms + (["C3"] if needs_c else [])
            g.add(f"k_{pn}__{cname}", f"{plabel} -> {clabel}", ps, ret, [f"r = {expr}"] + body, ds, fam=plabel)
            g.specs[-1].update({"chain": True, "prod": plabel, "prod_ref": pref, "prod_src": prod_src,
                                "prod_arity": len(params), "conv": conv, "consumer": clabel})
    return "\n".join(g.lines) + "\n", g.specs
