"""C06 helper: compile a generated module with mypyc (as mc/c15_build.py does: mypycify + build_ext --inplace in a
scratch dir, separate process) -- and, in the same process, run the static ownership model on exactly the
IR that is turned into C (observer wrappers of mc.c06_ir around emitmodule's passes).  Results of the model
are written to <dir>/static.json.

`C06_PATCH` (env): optional path of a python file exec'd in the build process before compiling (used only by
the detection demonstrations to monkey-patch mypyc.transform.* without touching /repo).
"""

from __future__ import annotations

import json
import os
import re
import subprocess
import sys
import time

from mc.c15_build import build_env

SETUP = """\
import json, os, sys
sys.path.insert(0, "/verif")
from setuptools import setup
from mypyc.build import mypycify
from mc import c06_ir, c06_model

patch = os.environ.get("C06_PATCH")
if patch:
    exec(compile(open(patch).read(), patch, "exec"))

res = []
cfg = {{"functions": 0, "functions_with_handlers": 0, "blocks": 0, "blocks_with_handler": 0, "missing": []}}

def obs(stage, fn, mod):
    r = c06_model.check_function(fn, stage)
    res.append({{"fn": fn.name, "cls": fn.class_name, "stage": stage, "states": r["states"],
                "transitions": r["transitions"], "capped": r["capped"], "violations": r["violations"],
                "ends": r["ends"], "steal_kinds": r["steal_kinds"], "multi_steal_ops": r["multi_steal_ops"]}})

def cfg_obs(fn, missing, nblocks, nhandled):
    cfg["functions"] += 1
    cfg["functions_with_handlers"] += bool(nhandled)
    cfg["blocks"] += nblocks
    cfg["blocks_with_handler"] += nhandled
    for m in missing:
        cfg["missing"].append(dict(m, fn=fn.name, cls=fn.class_name))

with c06_ir.observed_pipeline(obs, cfg_obs):
    ext = mypycify(['{mod}.py'], opt_level='{opt}', debug_level='0', strip_asserts=False)
with open('static.json', 'w') as f:
    json.dump(res, f)
with open('cfg.json', 'w') as f:
    json.dump(cfg, f)
setup(name='c06_build_{mod}', ext_modules=ext)
"""


def build(job: dict) -> dict:
    """job = {"dir", "mod", "opt", "source", "extra_files": {name: text}, "patch": path|None}."""
    d = job["dir"]
    os.makedirs(d, exist_ok=True)
    mod = job["mod"]
    with open(os.path.join(d, mod + ".py"), "w") as f:
        f.write(job["source"])
    for name, text in job.get("extra_files", {}).items():
        with open(os.path.join(d, name), "w") as f:
            f.write(text)
    with open(os.path.join(d, "setup.py"), "w") as f:
        f.write(SETUP.format(mod=mod, opt=job.get("opt", "0")))
    env = build_env()
    env["PYTHONHASHSEED"] = "0"
    if job.get("patch"):
        env["C06_PATCH"] = job["patch"]
    else:
        env.pop("C06_PATCH", None)
    t0 = time.time()
    try:
        p = subprocess.run([sys.executable, "setup.py", "build_ext", "--inplace"], cwd=d, env=env,
                           stdout=subprocess.PIPE, stderr=subprocess.STDOUT, timeout=job.get("timeout", 1800))
        rc, out = p.returncode, p.stdout.decode("utf8", "replace")
    except subprocess.TimeoutExpired as e:
        rc, out = -999, "TIMEOUT\n" + (e.stdout or b"").decode("utf8", "replace")
    secs = time.time() - t0
    sos = [n for n in os.listdir(d) if n.startswith(mod + ".") and n.endswith(".so")]
    static = []
    sp = os.path.join(d, "static.json")
    if os.path.exists(sp):
        with open(sp) as f:
            static = json.load(f)
    # C compiler errors attributed to the compiled function they are reported in
    c_errors = []
    cur = None
    for line in out.splitlines():
        m = re.search(r"In function ‘CPyDef_(\w+)’", line)
        if m:
            cur = m.group(1)
        m = re.search(r"__native\S*\.c:\d+:\d+: error: (.*)", line)
        if m and cur:
            c_errors.append({"fn": cur, "message": re.sub(r"‘[^’]*’", "‘_’", m.group(1))[:200]})
    cfg = {}
    cp = os.path.join(d, "cfg.json")
    if os.path.exists(cp):
        with open(cp) as f:
            cfg = json.load(f)
    lib_rt = ""
    for line in out.splitlines():
        if "lib-rt" in line and " -I" in line:
            for tok in line.split():
                if tok.startswith("-I") and "lib-rt" in tok:
                    lib_rt = tok[2:]
            break
    return {"ok": rc == 0 and len(sos) == 1, "rc": rc, "seconds": round(secs, 2), "log": out[-6000:], "dir": d,
            "mod": mod, "static": static, "cfg": cfg, "lib_rt": lib_rt, "c_errors": c_errors}
