"""C12 / version and platform conditions: the static truth value == eval with a fake `sys`.

Observation: a module of `if COND: pass / else: pass` statements is parsed by the real parser
(old `fastparse` and the native parser) and run through the real pass 1
(`SemanticAnalyzerPreAnalysis.visit_file` -> `infer_reachability_of_if_statement`); the decision is
read off `Block.is_unreachable` of the two branches:
   body reachable, else unreachable  => mypy decided TRUE
   body unreachable, else reachable  => mypy decided FALSE
   both reachable                    => undecided (never a violation)
Reference: `eval(COND, {"sys": fake, "x": ...})` for EVERY run-time environment consistent with the
configured target (3, N): sys.version_info = (3, N, micro, level, serial) for micro in {0, 5, 7}
(the target fixes only major.minor), free name x in {True, False}.  Rule: if mypy decides a value,
every consistent environment must give that truth value (and must not raise).
"""

from __future__ import annotations

import itertools
import types
from collections import Counter
from typing import Any

VERSIONS = [(3, n) for n in range(0, 16)]
PLATFORMS = ["linux", "win32", "darwin", "cygwin"]
OPS = ["==", "!=", "<", "<=", ">", ">="]

LHS_FORMS = ["", "[0]", "[1]", "[2]", "[:1]", "[:2]", "[:3]", "[0:1]", "[0:2]", "[1:2]", "[:]", "[::1]", "[:2:1]", "[1:]"]


def runtime_envs(ver: tuple[int, int], platform: str) -> list[dict]:
    out = []
    for micro, level, serial in ((0, "final", 0), (5, "final", 0), (7, "candidate", 1)):
        for x in (True, False):
            fake = types.SimpleNamespace(version_info=(ver[0], ver[1], micro, level, serial), platform=platform)
            out.append({"sys": fake, "x": x})
    return out


def version_rhs() -> list[str]:
    r = [str(i) for i in range(0, 17)]
    r += ["(2,)", "(3,)", "(4,)"]
    r += [f"(3, {m})" for m in range(0, 17)] + ["(2, 7)", "(4, 0)"]
    r += [f"(3, {m}, {k})" for m in range(0, 17) for k in (0, 5)]
    return r


def version_atoms() -> list[str]:
    out = []
    for lhs in LHS_FORMS:
        for op in OPS:
            for rhs in version_rhs():
                out.append(f"sys.version_info{lhs} {op} {rhs}")
                out.append(f"{rhs} {op} sys.version_info{lhs}")
    return out


def platform_atoms() -> list[str]:
    strs = ["linux", "win32", "darwin", "cygwin", "win", "lin", "", "Linux"]
    out = []
    for s in strs:
        out.append(f"sys.platform == {s!r}")
        out.append(f"sys.platform != {s!r}")
        out.append(f"{s!r} == sys.platform")
        out.append(f"{s!r} != sys.platform")
        out.append(f"sys.platform.startswith({s!r})")
    out += ["sys.platform in ('linux', 'darwin')", "sys.platform.endswith('32')", "sys.platform < 'm'"]
    return out


BASIS_QUICK = ["sys.version_info >= (3, 8)", "sys.version_info[:2] == (3, 8)", "sys.version_info >= (3, 8, 1)",
               "sys.platform == 'linux'", "sys.platform.startswith('win')", "x"]
BASIS_THOROUGH = BASIS_QUICK + ["sys.version_info < (3, 9)", "sys.version_info[0] == 3", "sys.version_info[1] > 8",
                                "sys.platform != 'darwin'"]


def combos(basis: list[str]) -> list[str]:
    """All not/and/or expressions of depth <= 2 over the basis (depth 0 = atom)."""
    d0 = list(basis)
    d1 = d0 + [f"not ({a})" for a in d0] + [f"({a}) {op} ({b})" for op in ("and", "or") for a in d0 for b in d0]
    d2 = [f"not ({a})" for a in d1] + [f"({a}) {op} ({b})" for op in ("and", "or") for a in d1 for b in d1]
    seen: set[str] = set(d0)  # bare atoms are not combinations (and are covered by the atom families)
    out = []
    for e in d1 + d2:
        if e not in seen:
            seen.add(e)
            out.append(e)
    return out


_CONDS: dict[str, list[str]] = {}


def conds(family: str) -> list[str]:
    if family not in _CONDS:
        _CONDS[family] = {"version": version_atoms, "platform": platform_atoms,
                          "combo-quick": lambda: combos(BASIS_QUICK),
                          "combo-thorough": lambda: combos(BASIS_THOROUGH)}[family]()
    return _CONDS[family]


def mypy_decisions(cs: list[str], ver: tuple[int, int], platform: str, native: bool) -> list[str]:
    """Real parser + real pass 1.  Per condition: 'T', 'F', 'U' or 'BOTH-UNREACHABLE'."""
    from mypy.errors import Errors
    from mypy.nodes import IfStmt
    from mypy.options import Options
    from mypy.parse import parse
    from mypy.semanal_pass1 import SemanticAnalyzerPreAnalysis

    text = "import sys\n" + "".join(f"if {c}:\n    pass\nelse:\n    pass\n" for c in cs)
    o = Options()
    o.python_version = ver
    o.platform = platform
    o.native_parser = native
    errors = Errors(o)
    tree = parse(text, "c12reach.py", "c12reach", errors, o, eager=True)
    if errors.is_errors():
        raise RuntimeError(f"parse errors in a generated reachability module ({'native' if native else 'fastparse'}): "
                           f"{errors.new_messages()[:3]}")
    SemanticAnalyzerPreAnalysis().visit_file(tree, "c12reach.py", "c12reach", o)
    ifs = [d for d in tree.defs if isinstance(d, IfStmt)]
    if len(ifs) != len(cs):
        raise RuntimeError(f"expected {len(cs)} if statements, found {len(ifs)}")
    out = []
    for s in ifs:
        b = s.body[0].is_unreachable
        e = s.else_body.is_unreachable if s.else_body is not None else False
        out.append({(False, False): "U", (False, True): "T", (True, False): "F", (True, True): "BOTH-UNREACHABLE"}[(b, e)])
    return out


def runtime_values(code: Any, envs: list[dict]) -> list[Any]:
    """Truth value per environment, or the exception type name."""
    out = []
    for env in envs:
        try:
            out.append(bool(eval(code, dict(env))))
        except Exception as e:  # noqa: BLE001 - the reference may legitimately raise (int vs tuple)
            out.append(type(e).__name__)
    return out


OPEN_ENDED = "open-ended-version_info-treated-as-ending-at-minor"


def cause(cond: str, decided: str) -> str:
    """Cause-level grouping of a wrong decision (naming only)."""
    if " and " in cond or " or " in cond or cond.startswith("not "):
        return f"combination:decided-{decided}"
    if "version_info" in cond:
        lhs = cond.split("sys.version_info", 1)[1]
        sub = lhs[: lhs.index("]") + 1] if lhs.startswith("[") else ""
        parts = sub[1:-1].split(":") if sub else []
        if not sub or (len(parts) >= 2 and parts[1].strip() == ""):
            # whole tuple or a slice without stop: reachability.py substitutes stop=2, i.e. compares
            # (major, minor) where the run-time value has 5 (or 4) more elements
            return OPEN_ENDED
        form = "index" if len(parts) == 1 else "closed-slice"
        return f"version_info-{form}:decided-{decided}"
    return f"platform:decided-{decided}"


def run_item(item: dict) -> dict:
    """One (family, slice, version, platform, parser) cell.  Runs in a freshly forked process."""
    cs = conds(item["family"])[item["start"]:item["stop"]]
    codes = [compile(c, "<cond>", "eval") for c in cs]
    st: Counter[str] = Counter()
    viol: list[dict] = []
    sample = None
    for ver, platform in item["configs"]:
        ver = tuple(ver)
        envs = runtime_envs(ver, platform)
        rts = [runtime_values(code, envs) for code in codes]
        for native in item["parsers"]:
            dec = mypy_decisions(cs, ver, platform, native)
            for c, d, rt in zip(cs, dec, rts):
                st["evaluations"] += 1
                st[f"decided_{d}"] += 1
                if d != "U" and not native:
                    st["nontrivial"] += 1
                vals = set(rt)
                const = len(vals) == 1 and isinstance(rt[0], bool)
                if const:
                    st["runtime_constant"] += 1
                    if d == "U":
                        st["undecided_though_constant"] += 1
                else:
                    st["runtime_varies_or_raises"] += 1
                if d == "U":
                    continue
                want = d == "T"
                if d in ("T", "F") and all(v is want for v in rt):
                    if sample is None and "version_info" in c:
                        sample = {"cond": c, "target": list(ver), "platform": platform, "mypy": d, "eval": want}
                    continue
                st["wrong"] += 1
                bad = next(((e, v) for e, v in zip(envs, rt) if v is not want), (envs[0], rt[0]))
                viol.append({
                    "signature": f"reach:{cause(c, d)}",
                    "what": f"target {ver[0]}.{ver[1]}/{platform} ({'native' if native else 'fastparse'}): `{c}` decided {d} by "
                            f"mypy, but evaluates to {bad[1]} with sys.version_info={bad[0]['sys'].version_info}"
                            f"{', x=' + str(bad[0]['x']) if c.startswith('x') or ' x' in c or '(x' in c else ''}",
                    "detail": {"sub": "reach", "cond": c, "version": list(ver), "platform": platform, "native": native,
                               "mypy": d, "runtime": [str(v) for v in rt]},
                })
    return {"stats": dict(st), "violations": viol, "sample": sample}


def items(tier: str, chunk: int) -> tuple[list[dict], dict]:
    out = []
    space: dict[str, Any] = {}
    parsers = [False, True]
    if tier == "quick":
        ver_cfg = [[list(v), PLATFORMS[i % 4]] for i, v in enumerate(VERSIONS)]
        combo_family = "combo-quick"
        combo_cfg = [[[3, 7], "linux"], [[3, 8], "win32"], [[3, 9], "linux"], [[3, 8], "linux"]]
    else:
        ver_cfg = [[list(v), p] for v in VERSIONS for p in PLATFORMS]
        combo_family = "combo-thorough"
        combo_cfg = [[[3, n], p] for n in (0, 7, 8, 9, 15) for p in PLATFORMS]
    plat_cfg = [[list(v), p] for v in ((3, 0), (3, 8), (3, 15)) for p in PLATFORMS]
    for fam, cfgs in (("version", ver_cfg), ("platform", plat_cfg), (combo_family, combo_cfg)):
        n = len(conds(fam))
        space[fam] = {"conditions": n, "configs": len(cfgs), "parsers": 2, "evaluations": n * len(cfgs) * 2}
        per = max(1, min(len(cfgs), 8))
        for s in range(0, n, chunk):
            for c0 in range(0, len(cfgs), per):
                cc = cfgs[c0:c0 + per]
                out.append({"kind": "reach", "family": fam, "start": s, "stop": min(n, s + chunk), "configs": cc,
                            "parsers": parsers, "cost": (min(n, s + chunk) - s) * len(cc) * 2 // 12 + 50})
    space["versions"] = "3.0 .. 3.15"
    space["platforms"] = PLATFORMS
    space["lhs_forms"] = ["sys.version_info" + f for f in LHS_FORMS]
    return out, space


def replay_one(d: dict) -> dict:
    from mc.kernel import run_isolated

    return run_isolated(_replay, d, timeout=300)


def _replay(d: dict) -> dict:
    ver = (d["version"][0], d["version"][1])
    dec = mypy_decisions([d["cond"]], ver, d["platform"], d["native"])[0]
    envs = runtime_envs(ver, d["platform"])
    rt = runtime_values(compile(d["cond"], "<cond>", "eval"), envs)
    return {"mypy": dec, "runtime": [str(v) for v in rt], "envs": [str(e["sys"].version_info) for e in envs]}
