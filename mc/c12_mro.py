"""C12 / MRO: TypeInfo.mro == type(...).__mro__, inconsistent hierarchy <=> class creation fails.

Space: every hierarchy of <= N classes C0..C(N-1) in which the bases of Ck are an ordered subset
of {C0..C(k-1)} (optionally at most B bases per class).  N=5: 1*2*5*16*65 = 10 400 hierarchies.
Reference: `type(name, bases, {})` -> `__mro__` or TypeError (duplicate bases are not in the space
because a base list is a SUBSET; they are covered by a separate small family: <=4 classes,
<=2 bases, base SEQUENCES in which at least one class repeats a base).
mypy side: a real build (bundled typeshed) of a module with the class statements; read
`TypeInfo.mro` names and the diagnostics on the class line.
A class whose (transitive) base failed at run time has no reference MRO and is not compared.
"""

from __future__ import annotations

import itertools
import os
import re
import shutil
from collections import Counter
from typing import Any, Iterator

_MSG = re.compile(r"^[^:]+:(\d+): (error|note|warning): (.*)$")


def base_choices(k: int, max_bases: int | None, repeats: bool = False) -> list[tuple[int, ...]]:
    """Ordered subsets of range(k) (optionally with size cap); with repeats: all sequences."""
    top = k if max_bases is None else min(k, max_bases)
    out: list[tuple[int, ...]] = []
    if repeats:
        top = 2 if max_bases is None else max_bases
        for r in range(0, top + 1):
            out.extend(itertools.product(range(k), repeat=r))
        return out
    for r in range(0, top + 1):
        out.extend(itertools.permutations(range(k), r))
    return out


def hierarchies(n_classes: int, max_bases: int | None, repeats: bool = False) -> Iterator[tuple[tuple[int, ...], ...]]:
    """All hierarchies with exactly n_classes classes, canonical order.  With repeats=True only the
    hierarchies in which some class repeats a base (the others are in the repeat-free family)."""
    per_class = [base_choices(k, max_bases, repeats) for k in range(n_classes)]
    for h in itertools.product(*per_class):
        if repeats and not any(len(set(b)) < len(b) for b in h):
            continue
        yield h


def count(n_classes: int, max_bases: int | None, repeats: bool = False) -> int:
    if repeats:
        return sum(1 for _ in hierarchies(n_classes, max_bases, True))
    c = 1
    for k in range(n_classes):
        c *= len(base_choices(k, max_bases, False))
    return c


def nth(n_classes: int, max_bases: int | None, repeats: bool, start: int, stop: int) -> list[tuple[tuple[int, ...], ...]]:
    return list(itertools.islice(hierarchies(n_classes, max_bases, repeats), start, stop))


def class_src(prefix: str, k: int, bases: tuple[int, ...]) -> str:
    b = ", ".join(f"{prefix}C{i}" for i in bases)
    return f"class {prefix}C{k}({b}): pass" if bases else f"class {prefix}C{k}: pass"


def runtime_mros(h: tuple[tuple[int, ...], ...]) -> list[Any]:
    """Per class: list of MRO names | ("TypeError", text) | None (a base does not exist)."""
    made: list[Any] = []
    out: list[Any] = []
    for k, bases in enumerate(h):
        if any(made[i] is None for i in bases):
            made.append(None)
            out.append(None)
            continue
        try:
            cls = type(f"C{k}", tuple(made[i] for i in bases), {})
        except TypeError as e:
            made.append(None)
            out.append(("TypeError", str(e)))
            continue
        made.append(cls)
        out.append([c.__name__ for c in cls.__mro__])
    return out


def run_item(item: dict) -> dict:
    """A batch of hierarchies in one module (own class-name prefix per hierarchy).  Runs in a
    freshly forked process."""
    from mypy import build as mb
    from mypy.errors import CompileError
    from mypy.modulefinder import BuildSource
    from mypy.nodes import TypeInfo

    from mc.common import scratch
    from mc.drivers import make_options

    hs = nth(item["n"], item["max_bases"], item.get("repeats", False), item["start"], item["stop"])
    lines: list[str] = []
    where: dict[int, tuple[int, int]] = {}
    for hi, h in enumerate(hs):
        for k, bases in enumerate(h):
            lines.append(class_src(f"H{hi}_", k, bases))
            where[len(lines)] = (hi, k)
    text = "\n".join(lines) + "\n"
    work = scratch("c12", f"mro-{os.getpid()}")
    os.makedirs(os.path.join(work, "tmp"), exist_ok=True)
    os.chdir(work)
    cache = None
    if item.get("cache"):
        cache = os.path.join(work, "cache")
        shutil.copytree(item["cache"], cache)
    o = make_options(cache_dir=cache, fixtures=False)
    try:
        try:
            res = mb.build([BuildSource("c12mro.py", "c12mro", text)], o)
            msgs = list(res.errors)
        except CompileError as e:
            raise RuntimeError(f"blocking error in an MRO module: {e.messages[:3]}")
        diag: dict[tuple[int, int], list[str]] = {}
        for m in msgs:
            mm = _MSG.match(m)
            if not mm or int(mm.group(1)) not in where:
                raise RuntimeError(f"unexpected mypy output line: {m!r}")
            diag.setdefault(where[int(mm.group(1))], []).append(re.sub(r"\s*\[[a-z-]+\]$", "", mm.group(3)))
        names = res.files["c12mro"].names
        st: Counter[str] = Counter()
        kinds: Counter[str] = Counter()
        viol: list[dict] = []
        sample = None
        nontrivial = 0
        for hi, h in enumerate(hs):
            rt = runtime_mros(h)
            st["hierarchies"] += 1
            if rt[-1] is not None and len(h[-1]) >= 2:
                nontrivial += 1
            for k, bases in enumerate(h):
                ref = rt[k]
                if ref is None:
                    st["classes_without_reference"] += 1
                    continue
                st["classes_compared"] += 1
                node = names[f"H{hi}_C{k}"].node
                assert isinstance(node, TypeInfo)
                mro = [t.name.split("_", 1)[1] if t.name.startswith("H") else t.name for t in node.mro]
                d = diag.get((hi, k), [])
                for x in d:
                    kinds[re.sub(r'"[^"]*"', "N", x)] += 1
                detail = {"sub": "mro", "hierarchy": [list(b) for b in h[: k + 1]], "class": k,
                          "runtime": ref if isinstance(ref, list) else list(ref), "mypy_mro": mro, "mypy_messages": d}
                src = "; ".join(class_src("", i, b) for i, b in enumerate(h[: k + 1]))
                if isinstance(ref, tuple):
                    st["rt_reject"] += 1
                    if not d:
                        st["false-accept"] += 1
                        viol.append({"signature": "mro:false-accept:" + ("duplicate-base" if "duplicate base" in ref[1] else "inconsistent-mro"),
                                     "what": f"{src}: class creation raises TypeError ({ref[1][:80]}), mypy is silent",
                                     "detail": detail})
                    continue
                st["rt_accept"] += 1
                if len(bases) >= 2:
                    st["multi_base_ok"] += 1
                if d:
                    st["false-reject"] += 1
                    viol.append({"signature": "mro:false-reject:" + re.sub(r'"[^"]*"', "N", d[0]).replace(" ", "-"),
                                 "what": f"{src}: class creation succeeds with MRO {ref}, mypy reports {d}", "detail": detail})
                elif mro != ref:
                    st["mro-differs"] += 1
                    viol.append({"signature": "mro:different-linearisation",
                                 "what": f"{src}: runtime MRO {ref}, mypy MRO {mro}", "detail": detail})
                elif sample is None and len(ref) >= 5:
                    sample = {"classes": src, "mro": ref}
        return {"stats": dict(st), "kinds": dict(kinds), "violations": viol, "sample": sample,
                "nontrivial": nontrivial}
    finally:
        shutil.rmtree(work, ignore_errors=True)


def items(tier: str, chunk: int) -> tuple[list[dict], dict]:
    fams = [("ordered-subsets", n, None, False) for n in range(1, 6)]
    # repeated bases (duplicate base class): <=4 classes, <=2 bases, sequences with repetition
    fams += [("sequences-with-repeats<=2-bases", n, 2, True) for n in range(2, 5)]
    if tier == "thorough":
        fams.append(("ordered-subsets<=2-bases", 6, 2, False))
    out = []
    space = {}
    for name, n, mb_, rep in fams:
        c = count(n, mb_, rep)
        space[f"{name}/{n}-classes"] = c
        for s in range(0, c, chunk):
            out.append({"kind": "mro", "n": n, "max_bases": mb_, "repeats": rep, "start": s, "stop": min(c, s + chunk),
                        "cost": (min(c, s + chunk) - s) * n // 4 + 100})
    return out, {"families": space, "hierarchies": sum(space.values())}


def replay_one(d: dict, cache: str | None) -> dict:
    from mc.kernel import run_isolated

    h = tuple(tuple(b) for b in d["hierarchy"])
    return run_isolated(_replay, {"h": h, "cache": cache}, timeout=600)


def _replay(job: dict) -> dict:
    from mypy import build as mb
    from mypy.modulefinder import BuildSource

    from mc.common import scratch
    from mc.drivers import make_options

    h = job["h"]
    text = "\n".join(class_src("", k, b) for k, b in enumerate(h)) + "\n"
    work = scratch("c12", f"mro-replay-{os.getpid()}")
    os.makedirs(os.path.join(work, "tmp"), exist_ok=True)
    os.chdir(work)
    o = make_options(cache_dir=None, fixtures=False)
    res = mb.build([BuildSource("c12mro.py", "c12mro", text)], o)
    k = len(h) - 1
    node = res.files["c12mro"].names[f"C{k}"].node
    last = [m for m in res.errors if m.startswith(f"c12mro.py:{k + 1}:")]
    shutil.rmtree(work, ignore_errors=True)
    return {"text": text, "runtime": runtime_mros(h)[k], "mypy_mro": [t.name for t in node.mro], "mypy_messages": last}
