"""C06 driver: runs INSIDE a subprocess (cwd = build dir, PYTHONMALLOC=debug) against a compiled module and its
interpreted twin.  `python -m mc.c06_driver job.json`.

conformance:  for every (function, k): build fresh tracked arguments, call once (warm-up), then record
              sys.getrefcount of every tracked object + weakref census of live T instances, call 64 times
              (dropping results / exceptions), gc.collect(), record again.  The same is done with the
              interpreted twin (CPython is the oracle for "this function is net neutral" and for the outcome).
undefined:    for every (function, input): outcome (value or exception TYPE) compiled vs interpreted, plus the
              refcount of the tracked argument around 16 calls.

A progress file names the measurement in flight, so the parent can attribute a signal exit.
"""

from __future__ import annotations

import gc
import importlib
import itertools
import json
import sys

CALLS = 64
UCALLS = 16


def _summ(r, names, depth=0):
    if id(r) in names:
        return names[id(r)]
    if depth > 4:
        return "..."
    if isinstance(r, tuple):
        return "(" + ",".join(_summ(x, names, depth + 1) for x in r) + ")"
    if isinstance(r, list):
        return "[" + ",".join(_summ(x, names, depth + 1) for x in r) + "]"
    if isinstance(r, dict):
        return "{" + ",".join(sorted(f"{_summ(k, names, depth + 1)}:{_summ(v, names, depth + 1)}" for k, v in r.items())) + "}"
    if type(r).__name__ == "T":
        return "T(" + _summ(r.v, names, depth + 1) + ")"
    if type(r).__name__ == "Box":
        return "Box(" + _summ(r.item, names, depth + 1) + ")"
    if type(r).__name__ == "Pair":
        return "Pair(" + _summ(r.p, names, depth + 1) + "," + _summ(r.q, names, depth + 1) + ")"
    if isinstance(r, (set, frozenset)):
        return "{" + ",".join(sorted(_summ(x, names, depth + 1) for x in r)) + "}"
    if isinstance(r, (int, str, bool, float)) or r is None:
        return repr(r)
    return "<" + type(r).__name__ + ">"


def census(r, names):
    """Reference counts of the identity-carrying objects reachable from a result WHILE the result is held:
    tracked T instances (labelled by their payload), the tracked arguments, native Box/Pair instances.  The walker's
    own temporaries add the same constant in the interpreted and in the compiled run."""
    out = []
    seen = set()
    stack = [r]
    while stack:
        o = stack.pop()
        if id(o) in seen:
            continue
        seen.add(id(o))
        tn = type(o).__name__
        if id(o) in names:
            out.append((names[id(o)], sys.getrefcount(o)))
        elif tn == "T":
            if o.v != "fx":  # the module-level Final is additionally held by a C static of the compiled module
                out.append(("T:" + (o.v if isinstance(o.v, str) else names.get(id(o.v), "?")), sys.getrefcount(o)))
        elif tn in ("Box", "Pair"):
            out.append((tn, sys.getrefcount(o)))
        elif isinstance(o, int) and not isinstance(o, bool) and abs(o) > 2 ** 62:
            out.append(("bigint", sys.getrefcount(o)))
        if isinstance(o, (tuple, list)):
            stack.extend(o)
        elif isinstance(o, (set, frozenset)):
            stack.extend(sorted(o, key=lambda e: (type(e).__name__, repr(e) if type(e).__name__ == "T" else "")))
        elif isinstance(o, dict):
            stack.extend(o.keys())
            stack.extend(o.values())
        elif tn == "T":
            stack.append(o.v)
        elif tn == "Box":
            stack.extend([o.item, o.other])
        elif tn == "Pair":
            stack.extend([o.p, o.q])
        del o
    return sorted(out)


def conf_measure(mod, trk, fname, k, calls, want_census=False):
    T = trk.T
    a, b = T("a"), T("b")
    xs = [T(0), T(1), T(2)]
    d = {"x": T("dx"), "y": T("dy")}
    bx = mod.Box(T("bi"))
    tracked = [a, b, xs, xs[0], xs[1], xs[2], d, d["x"], d["y"], bx, bx.item]
    tnames = ["a", "b", "xs", "xs0", "xs1", "xs2", "d", "dx", "dy", "bx", "bi"]
    names = {id(o): n for o, n in zip(tracked, tnames)}
    f = getattr(mod, fname)

    def shape():
        return ([names.get(id(x), "?") for x in xs], {kk: names.get(id(v), "?") for kk, v in d.items()},
                names.get(id(bx.item), "?"), _summ(bx.other, names))

    def call():
        try:
            r = f(a, b, xs, d, bx, k)
        except Exception as e:  # noqa: BLE001
            return "exc:" + type(e).__name__
        return "ok:" + _summ(r, names)

    shape0 = shape()
    cen = None
    if want_census:
        try:
            r = f(a, b, xs, d, bx, k)
        except Exception as e:  # noqa: BLE001
            cen = "exc:" + type(e).__name__
            del e
        else:
            cen = census(r, names)
            del r
    out0 = call()
    gc.collect()
    live0 = len(trk.LIVE)
    rc0 = [sys.getrefcount(o) for o in tracked]
    stable = True
    for _ in range(calls):
        if call() != out0:
            stable = False
    gc.collect()
    live1 = len(trk.LIVE)
    rc1 = [sys.getrefcount(o) for o in tracked]
    deltas = {n: y - x for n, x, y in zip(tnames, rc0, rc1) if x != y}
    return {"outcome": out0, "stable": stable, "deltas": deltas, "live_delta": live1 - live0,
            "restored": shape() == shape0, "census": cen}


def run_conformance(job, res, progress):
    trk = importlib.import_module("c06trk")
    comp = importlib.import_module(job["modname"])
    ref = importlib.import_module(job["refname"])
    assert comp.__file__.endswith(".so"), comp.__file__
    assert ref.__file__.endswith(".py"), ref.__file__
    skip = {json.dumps(x) for x in job.get("skip", [])}
    for spec in job["specs"]:
        for k in range(spec["nk"]):
            if json.dumps([spec["name"], k]) in skip:
                continue
            progress(spec["name"], k)
            r_ref = conf_measure(ref, trk, spec["name"], k, job.get("calls", CALLS), spec.get("census", False))
            r_cmp = conf_measure(comp, trk, spec["name"], k, job.get("calls", CALLS), spec.get("census", False))
            res.append({"name": spec["name"], "k": k, "ref": r_ref, "compiled": r_cmp})


def undef_inputs(mask):
    dls = (0, 1) if mask & 16 else (0,)
    return [(c, n, r, dl) for c, n, r, dl in itertools.product((0, 1), (0, 1), (0, 1), dls)]


def undef_measure(mod, trk, fname, inp, calls):
    a = trk.T("a")
    v = 2 ** 70 + 7
    w = 5
    names = {id(a): "a"}
    f = getattr(mod, fname)

    def call():
        try:
            r = f(*inp, a, v, w)
        except Exception as e:  # noqa: BLE001
            return "exc:" + type(e).__name__
        return "ok:" + _summ(r, names)

    out0 = call()
    gc.collect()
    rc0 = sys.getrefcount(a)
    rv0 = sys.getrefcount(v)
    live0 = len(trk.LIVE)
    stable = True
    for _ in range(calls):
        if call() != out0:
            stable = False
    gc.collect()
    return {"outcome": out0, "stable": stable, "delta_a": sys.getrefcount(a) - rc0, "delta_v": sys.getrefcount(v) - rv0,
            "live_delta": len(trk.LIVE) - live0}


def run_undef(job, res, progress):
    trk = importlib.import_module("c06trk")
    comp = importlib.import_module(job["modname"])
    ref = importlib.import_module(job["refname"])
    assert comp.__file__.endswith(".so"), comp.__file__
    skip = {json.dumps(x) for x in job.get("skip", [])}
    for spec in job["specs"]:
        for inp in [tuple(i) for i in spec["inputs"]] if "inputs" in spec else undef_inputs(spec["mask"]):
            if json.dumps([spec["name"], list(inp)]) in skip:
                continue
            progress(spec["name"], list(inp))
            r_ref = undef_measure(ref, trk, spec["name"], inp, job.get("calls", UCALLS))
            r_cmp = undef_measure(comp, trk, spec["name"], inp, job.get("calls", UCALLS))
            res.append({"name": spec["name"], "input": list(inp), "mask": spec["mask"], "ref": r_ref, "compiled": r_cmp})


def main() -> None:
    with open(sys.argv[1]) as f:
        job = json.load(f)

    def progress(name, arg):
        with open(job["progress"], "w") as pf:
            json.dump([name, arg], pf)

    class Sink(list):
        """Every finished measurement is appended to the out file at once (one JSON line), so that a later signal
        exit loses only the measurement in flight."""

        def append(self, rec):  # type: ignore[override]
            with open(job["out"], "a") as f:
                f.write(json.dumps(rec) + "\n")

    res = Sink()
    if job["lane"] == "conformance":
        run_conformance(job, res, progress)
    else:
        run_undef(job, res, progress)
    with open(job["out"] + ".done", "w") as f:
        f.write("done")


if __name__ == "__main__":
    main()
