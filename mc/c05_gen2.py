"""C05 helper: families (h) class-hierarchy x compilation layout and (o) evaluation order / eagerness.

Family (h) - every single-inheritance chain of native classes of depth <= 3 in which each level
independently has / has not (D) class-level attribute defaults, (I) an `__init__` (chaining to the nearest
ancestor `__init__`), (M) methods + a property of its own (overriding the ancestors' ones): 8 + 64 + 512
chains, each *placed* over the modules of a three-module package (all classes in the main module; first
class | rest; all but the leaf | leaf; one module per class) and compiled in every layout (single group,
multi_file, separate).  Observed: construction from the interpreter and from compiled code, reads of every
level's attributes from the interpreter (getattr through the type's descriptors) and from compiled code
(native attribute access / vtable dispatch through every static type of the chain), writes, isinstance,
copy.copy / copy.deepcopy / pickle round trips.

Family (o) - one function per *form*: a call form that mypyc specialises (every registration of
mypyc/irbuild/specialize.py is mapped to the forms that select it; see `specializer_coverage`) or an
expression / statement context with several operand positions.  Every operand position k is wrapped in a
typed helper `tX(g, k, r, value)` that appends k to the log g (a list passed in by the driver), raises
ValueError('P:k') when r == k and returns the value otherwise.  The function is called for r = 0..n (nobody
raises / position r raises) and for each value variant v; oracle: same result or exception, same log.
"""

from __future__ import annotations

import itertools
import re
from typing import Any

# =========================================================================== family (h): hierarchies

H_LIBS = ("c05h0", "c05h1")
LEVEL_NAMES = "ABC"
# placement id -> for a chain of depth n, the module index (0, 1 = support modules, 2 = main module) of each class
PLACEMENTS = {
    "one": lambda n: [2] * n,
    "split-all": lambda n: {2: [0, 2], 3: [0, 1, 2]}[n],
    "split-first": lambda n: [0, 2, 2],
    "split-last": lambda n: [0, 0, 2],
    "lib": lambda n: [0] * n,
}


def placements_for(depth: int, quick: bool) -> list[str]:
    if depth == 1:
        return ["one"] if quick else ["one", "lib"]
    if depth == 2:
        return ["one", "split-all"] if quick else ["one", "split-all", "lib"]
    return ["one", "split-all", "split-first", "split-last"] + ([] if quick else ["lib"])


# layouts in which a placement is compiled (opt 0); `thorough` adds the remaining pairs and opt 3
H_LAYOUTS_QUICK = {
    "one": ["single", "separate"],
    "split-all": ["single", "multi_file", "separate"],
    "split-first": ["multi_file", "separate"],
    "split-last": ["multi_file", "separate"],
}


def _feat(f: int) -> tuple[int, int, int]:
    return f & 1, (f >> 1) & 1, (f >> 2) & 1


def feat_label(f: int) -> str:
    d, i, m = _feat(f)
    return ("D" if d else "") + ("I" if i else "") + ("M" if m else "") or "-"


def _class_source(j: str, feats: tuple[int, ...], lvl: int) -> str:
    d, i, m = _feat(feats[lvl])
    above = [_feat(f) for f in feats[:lvl]]
    name = f"H{j}{LEVEL_NAMES[lvl]}"
    base = f"(H{j}{LEVEL_NAMES[lvl - 1]})" if lvl else ""
    vis_d = [k for k, f in enumerate(above) if f[0]] + ([lvl] if d else [])
    dk = vis_d[-1] if vis_d else None
    body: list[str] = []
    if d:
        body += [f"    x{lvl}: int = {10 + lvl}", f"    s{lvl}: str = 'd{lvl}'"]
        if len(vis_d) > 1:
            # ... and re-defines the default of the nearest ancestor that has defaults
            body.append(f"    s{vis_d[-2]}: str = 'o{lvl}'")
    if i:
        body.append("    def __init__(self, v: int = 7) -> None:")
        if any(f[1] for f in above):
            body.append("        super().__init__(v + 1)")
        body.append(f"        self.i{lvl} = v * 10 + {lvl}" + (f" + self.x{dk}" if dk is not None else ""))
    if m:
        body.append("    def m(self) -> str:")
        body.append(f"        return '{LEVEL_NAMES[lvl]}'" + (" + super().m()" if any(f[2] for f in above) else ""))
        body += ["    @property", "    def p(self) -> int:",
                 f"        return {1000 * (lvl + 1)}" + (f" + self.x{dk}" if dk is not None else "")]
        body += [f"    def n{lvl}(self) -> int:", f"        return {lvl + 1}" + (f" + self.x{dk}" if dk is not None else "")]
    if not body:
        body = ["    pass"]
    return f"class {name}{base}:\n" + "\n".join(body) + "\n"


def _visible(feats: tuple[int, ...], lvl: int) -> tuple[list[str], list[str]]:
    """(data attributes, [method-ish expressions]) statically visible on the class at level lvl."""
    attrs: list[str] = []
    calls: list[str] = []
    has_m = False
    for k in range(lvl + 1):
        d, i, m = _feat(feats[k])
        if d:
            attrs += [f"x{k}", f"s{k}"]
        if i:
            attrs.append(f"i{k}")
        if m:
            has_m = True
            calls.append(f"n{k}()")
    if has_m:
        calls = ["m()", "p"] + calls
    return attrs, calls


def _hier_unit(idx: int, feats: tuple[int, ...], placement: str) -> dict:
    depth = len(feats)
    j = f"{idx}"
    mods = PLACEMENTS[placement](depth)
    names = [f"H{j}{LEVEL_NAMES[k]}" for k in range(depth)]
    parts: dict[int, list[str]] = {0: [], 1: [], 2: []}
    for k in range(depth):
        if k and mods[k] != mods[k - 1]:
            parts[mods[k]].append(f"from {H_LIBS[mods[k - 1]]} import {names[k - 1]}\n")
        parts[mods[k]].append(_class_source(j, feats, k))
    main: list[str] = []
    for k in range(depth):
        if mods[k] != 2:
            main.append(f"from {H_LIBS[mods[k]]} import {names[k]}")
    if main:
        main.append("")
    main += parts[2]
    any_init = [any(_feat(f)[1] for f in feats[:k + 1]) for k in range(depth)]
    # compiled reader / constructor
    fn = [f"def hf{j}(k: int, o: object) -> Any:"]
    for k in range(depth):
        attrs, calls = _visible(feats, k)
        fn.append(f"    if k == {k} and isinstance(o, {names[k]}):")
        fn.append("        return [" + ", ".join(f"o.{a}" for a in attrs + calls) + "]")
    fn.append(f"    if k == {depth}:")
    fn.append("        return [" + ", ".join(f"isinstance(o, {n})" for n in names) + "]")
    fn.append("    return None")
    fn.append("")
    fn.append(f"def hm{j}(k: int, v: int) -> Any:")
    for k in range(depth):
        fn.append(f"    if k == {k}:")
        fn.append(f"        return {names[k]}({'v' if any_init[k] else ''})")
    fn.append("    return None")
    main.append("\n".join(fn) + "\n")
    # ---- cases
    all_attrs: list[str] = []
    for k in range(depth):
        all_attrs += [f"x{k}", f"s{k}", f"i{k}"]
    gets = [("get", a) for a in all_attrs] + [("call", "m", ()), ("get", "p")] + \
           [("call", f"n{k}", ()) for k in range(depth)] + [("has", "zz"), ("get", "zz")]
    calls: list[str] = []
    tags: dict[str, str] = {}

    def add(call: str, tag: str) -> None:
        if call not in tags:
            calls.append(call)
            tags[call] = tag

    for k in range(depth):
        cls = f"M.{names[k]}"
        insts = [f"{cls}()"] + ([f"{cls}(3)"] if any_init[k] else []) + [f"M.hm{j}({k}, 3)"]
        if depth == 1 and not any_init[k]:
            # no __init__ anywhere: object's own rejects arguments (only here: one observation per such class)
            add(f"{cls}(3)", f"{k}:construct-with-surplus-argument")
        for inst in insts[:1] + insts[-1:]:
            add(inst, f"{k}:construct")
        for inst in insts:
            add(f"apply_seq({inst}, {gets!r})", f"{k}:read-from-interpreter")
        for inst in insts:
            for t in range(k + 1):
                add(f"M.hf{j}({t}, {inst})", f"{k}:read-from-compiled-code")
            add(f"M.hf{j}({depth}, {inst})", f"{k}:isinstance-compiled")
            add("[" + ", ".join(f"isinstance({inst}, M.{n})" for n in names) + "]", f"{k}:isinstance-interpreted")
        attrs, _ = _visible(feats, k)
        if attrs:
            sets = []
            for n_, a in enumerate(attrs):
                sets.append(("set", a, "w" + a if a[0] == "s" else 500 + n_))
            inter = []
            for st in sets:
                inter += [st, ("get", st[1])]
            add(f"apply_seq({cls}(), {inter!r})", f"{k}:write-read-from-interpreter")
            add(f"M.hf{j}({k}, after({cls}(), {sets!r}))", f"{k}:write-then-read-from-compiled-code")
            first = [sets[0]]
        else:
            first = []
        base_inst = f"{cls}(3)" if any_init[k] else f"{cls}()"
        for fn_, tag in (("copy.copy", "copy"), ("copy.deepcopy", "deepcopy")):
            add(f"apply_seq({fn_}(after({base_inst}, {first!r})), {gets!r})", f"{k}:{tag}")
        add(f"apply_seq(pickled(M, after({base_inst}, {first!r})), {gets!r})", f"{k}:pickle")
    add(f"M.hf{j}({depth}, 5)", "x:isinstance-compiled")
    pattern = "/".join(feat_label(f) for f in feats)
    sup: dict[str, str] = {}
    for mi in (0, 1):
        if parts[mi]:
            sup[H_LIBS[mi] + ".py"] = "\n".join(parts[mi]) + "\n"
    return {"name": f"hh_{idx:04d}_{placement.replace('-', '_')}", "family": "h",
            "construct": f"class chain {pattern} (D=class-level defaults, I=__init__, M=methods+property), "
                         f"modules: {placement}",
            "sigkey": "hierarchy", "placement": placement, "depth": depth, "pattern": pattern,
            "src": "\n".join(main), "doms": [], "calls": calls, "call_tags": tags, "alias": False,
            "support_parts": sup}


def family_h(quick: bool) -> tuple[list[dict], dict]:
    units: list[dict] = []
    idx = 0
    n_chains = 0
    per_placement: dict[str, int] = {}
    for depth in (1, 2, 3):
        for feats in itertools.product(range(8), repeat=depth):
            n_chains += 1
            for pl in placements_for(depth, quick):
                units.append(_hier_unit(idx, feats, pl))
                per_placement[pl] = per_placement.get(pl, 0) + 1
            idx += 1
    return units, {"chains": n_chains, "placed_chains": len(units), "placed_chains_by_placement": per_placement,
                   "level_features": ["D: class-level attribute defaults", "I: __init__", "M: methods m/n<k> + property p"],
                   "max_depth": 3}


def h_support_header() -> str:
    return "from typing import Any, List\n\n"


# =========================================================================== family (o): evaluation order

O_PRELUDE = '''\
import collections
from typing import Literal, cast

def tI(g: List[str], k: int, r: int, x: int) -> int:
    g.append(str(k))
    if r == k:
        raise ValueError('P:' + str(k))
    return x

def tB(g: List[str], k: int, r: int, x: bool) -> bool:
    g.append(str(k))
    if r == k:
        raise ValueError('P:' + str(k))
    return x

def tS(g: List[str], k: int, r: int, x: str) -> str:
    g.append(str(k))
    if r == k:
        raise ValueError('P:' + str(k))
    return x

def tF(g: List[str], k: int, r: int, x: float) -> float:
    g.append(str(k))
    if r == k:
        raise ValueError('P:' + str(k))
    return x

def tY(g: List[str], k: int, r: int, x: bytes) -> bytes:
    g.append(str(k))
    if r == k:
        raise ValueError('P:' + str(k))
    return x

def tL(g: List[str], k: int, r: int, x: List[int]) -> List[int]:
    g.append(str(k))
    if r == k:
        raise ValueError('P:' + str(k))
    return x

def tD(g: List[str], k: int, r: int, x: Dict[str, int]) -> Dict[str, int]:
    g.append(str(k))
    if r == k:
        raise ValueError('P:' + str(k))
    return x

def tE(g: List[str], k: int, r: int, x: Set[int]) -> Set[int]:
    g.append(str(k))
    if r == k:
        raise ValueError('P:' + str(k))
    return x

def tT(g: List[str], k: int, r: int, x: Tuple[int, int]) -> Tuple[int, int]:
    g.append(str(k))
    if r == k:
        raise ValueError('P:' + str(k))
    return x

def tW(g: List[str], k: int, r: int, x: Literal['little', 'big']) -> Literal['little', 'big']:
    g.append(str(k))
    if r == k:
        raise ValueError('P:' + str(k))
    return x

def tO(g: List[str], k: int, r: int, x: object) -> object:
    g.append(str(k))
    if r == k:
        raise ValueError('P:' + str(k))
    return x

def tA(g: List[str], k: int, r: int, x: Any) -> Any:
    g.append(str(k))
    if r == k:
        raise ValueError('P:' + str(k))
    return x

class Ob:
    """Native object whose special methods log."""
    def __init__(self, g: List[str], n: int) -> None:
        self.g = g
        self.n = n
    def __bool__(self) -> bool:
        self.g.append('bool' + str(self.n))
        return self.n > 0
    def __len__(self) -> int:
        self.g.append('len' + str(self.n))
        return 3
    def __eq__(self, o: object) -> bool:
        self.g.append('eq' + str(self.n))
        return isinstance(o, Ob) and o.n == self.n
    def __ne__(self, o: object) -> bool:
        self.g.append('ne' + str(self.n))
        return not (isinstance(o, Ob) and o.n == self.n)
    def __hash__(self) -> int:
        return self.n
    def __lt__(self, o: 'Ob') -> bool:
        self.g.append('lt' + str(self.n))
        return self.n < o.n
    def __gt__(self, o: 'Ob') -> bool:
        self.g.append('gt' + str(self.n))
        return self.n > o.n
    def __str__(self) -> str:
        self.g.append('str' + str(self.n))
        return 'Ob' + str(self.n)
    def __repr__(self) -> str:
        self.g.append('repr' + str(self.n))
        return 'Ob<' + str(self.n) + '>'
    def __abs__(self) -> 'Ob':
        self.g.append('abs' + str(self.n))
        return Ob(self.g, abs(self.n))
    def __neg__(self) -> 'Ob':
        self.g.append('neg' + str(self.n))
        return Ob(self.g, -self.n)
    def __int__(self) -> int:
        self.g.append('int' + str(self.n))
        return self.n * 2
    def __float__(self) -> float:
        self.g.append('float' + str(self.n))
        return self.n + 0.5
    def __complex__(self) -> complex:
        self.g.append('complex' + str(self.n))
        return complex(self.n, 1)
    def __add__(self, o: 'Ob') -> 'Ob':
        self.g.append('add' + str(self.n))
        return Ob(self.g, self.n + o.n)
    def __contains__(self, x: int) -> bool:
        self.g.append('contains' + str(self.n))
        return x == self.n
    def __getitem__(self, i: int) -> int:
        self.g.append('getitem' + str(self.n))
        if i > 2:
            raise IndexError('P:getitem')
        return self.n + i
    def __setitem__(self, i: int, x: int) -> None:
        self.g.append('setitem' + str(self.n))
        self.n = i * 100 + x
    def bump(self) -> int:
        self.n += 10
        return 1
    def meth(self, a: int, b: int = 0) -> Tuple[int, int, int]:
        return (self.n, a, b)

def tK(g: List[str], k: int, r: int, n: int) -> Ob:
    g.append(str(k))
    if r == k:
        raise ValueError('P:' + str(k))
    return Ob(g, n)

def tP(g: List[str], k: int, r: int, o: Ob) -> Ob:
    g.append(str(k))
    if r == k:
        raise ValueError('P:' + str(k))
    return o

class Pt:
    def __init__(self, x: int, y: int = 0, *, z: int = 0) -> None:
        self.x = x
        self.y = y
        self.z = z
    def tup(self) -> Tuple[int, int, int]:
        return (self.x, self.y, self.z)

class CM:
    def __init__(self, g: List[str], n: int, mode: int) -> None:
        self.g = g
        self.n = n
        self.mode = mode
    def __enter__(self) -> int:
        self.g.append('enter' + str(self.n))
        if self.mode == 2 and self.n == 2:
            raise KeyError('P:enter' + str(self.n))
        return self.n
    def __exit__(self, t: Any, v: Any, tb: Any) -> bool:
        self.g.append('exit' + str(self.n) + ('' if t is None else ':' + t.__name__))
        return self.mode == 1 and self.n == 2

def f3(a: int, b: int, c: int = 0) -> Tuple[int, int, int]:
    return (a, b, c)

def f4(a: int, b: int = 0, *, c: int = 0) -> Tuple[int, int, int]:
    return (a, b, c)

def fk(a: int, *rest: int, k: int = 0, **kw: int) -> Any:
    return (a, rest, k, sorted(kw.items()))

def popret(l: List[int]) -> int:
    l[0] += 10
    return 1
'''

O_NEW_PRELUDE = '''\
class NewC:
    v: int
    def __new__(cls, g: List[str], v: int) -> 'NewC':
        g.append('new')
        o = object.__new__(cls)
        o.v = v
        return o
    def __init__(self, g: List[str], v: int) -> None:
        g.append('init')
'''

O_SETATTR_PRELUDE = '''\
class SetC:
    g: List[str]
    a: int
    def before(self, v: int) -> None:
        self.a = v
    def __setattr__(self, name: str, value: object) -> None:
        if name == 'a':
            self.g.append('setattr')
        super().__setattr__(name, value)
    def __init__(self, g: List[str]) -> None:
        super().__setattr__('g', g)
        super().__setattr__('a', 0)
    def after(self, v: int) -> None:
        self.a = v
    def put(self, g: List[str], r: int, v: int) -> None:
        super().__setattr__(tS(g, 1, r, 'a'), tI(g, 2, r, v))
'''

_TAG = re.compile(r"\b([IBSFYLDETOAKPW])\((\d),")
_TAGNUM = re.compile(r"\bt[IBSFYLDETOAKPW]\(g, (\d), r,")

V3 = ["0", "1", "2"]

# (label, specialiser keys it selects ("name" or "name@type"), value variants or None for 0,1,2, body)
# body: "= <expr>" or statement lines; operand wrappers are written X(k, value) and expanded to tX(g, k, r, value)
O_FORMS: list[tuple[str, list[str], list[str] | None, str]] = [
    # ---------------------------------------------------------------- specialised calls (mypyc/irbuild/specialize.py)
    ("globals().get(k, d)", ["builtins.globals"], None, "= globals().get(S(1, ['f3', 'nope', 'tI'][v]), I(2, 5)) is None"),
    ("abs(native with __abs__)", ["builtins.abs"], None, "= abs(K(1, v - 1)).n"),
    ("int(native with __int__)", ["builtins.int"], None, "= int(K(1, v))"),
    ("float(native with __float__)", ["builtins.float"], None, "= float(K(1, v))"),
    ("complex(native with __complex__)", ["builtins.complex"], None, "= complex(K(1, v))"),
    ("i64(native with __int__)", ["mypy_extensions.i64"], None, "x: i64 = i64(K(1, v))\nreturn x"),
    ("i32(native with __int__)", ["mypy_extensions.i32"], None, "x: i32 = i32(K(1, v))\nreturn x"),
    ("i16(native with __int__)", ["mypy_extensions.i16"], None, "x: i16 = i16(K(1, v))\nreturn x"),
    ("u8(native with __int__)", ["mypy_extensions.u8"], None, "x: u8 = u8(K(1, v))\nreturn x"),
    ("len(list)", ["builtins.len"], None, "= len(L(1, [1, 2, 3][:v]))"),
    ("len(str)", ["builtins.len"], None, "= len(S(1, 'ab' * v))"),
    ("len(tuple)", ["builtins.len"], None, "= len(T(1, (v, 2)))"),
    ("len(dict)", ["builtins.len"], None, "= len(D(1, {'a': 1, 'b': v}))"),
    ("len(set)", ["builtins.len"], None, "= len(E(1, {1, v}))"),
    ("len(native with __len__)", ["builtins.len"], None, "= len(K(1, v))"),
    ("list(dict.keys())", ["builtins.list"], None, "= list(D(1, {'a': v, 'b': 2}).keys())"),
    ("list(dict.values())", ["builtins.list"], None, "= list(D(1, {'a': v, 'b': 2}).values())"),
    ("list(dict.items())", ["builtins.list"], None, "= list(D(1, {'a': v, 'b': 2}).items())"),
    ("list(genexpr)", ["builtins.list"], None, "= list(I(2, x * 2) for x in L(1, [1, 2, 3][:v]))"),
    ("list(genexpr if)", ["builtins.list"], None, "= list(I(3, x) for x in L(1, [1, 2, 3]) if B(2, x > v))"),
    ("tuple(genexpr)", ["builtins.tuple"], None, "= tuple(I(2, x * 2) for x in L(1, [1, 2, 3][:v]))"),
    ("tuple(genexpr over str)", ["builtins.tuple"], None, "= tuple(S(2, c) for c in S(1, 'abc'[:v]))"),
    ("set(genexpr)", ["builtins.set"], None, "= set(I(2, x % 2) for x in L(1, [1, 2, 3][:v]))"),
    ("frozenset(genexpr)", ["builtins.frozenset"], None, "= frozenset(I(2, x % 2) for x in L(1, [1, 2, 3][:v]))"),
    ("dict(genexpr)", ["builtins.dict"], None, "= dict((S(2, str(x)), I(3, x)) for x in L(1, [1, 2, 3][:v]))"),
    ("dict(genexpr, **kw)", ["builtins.dict"], None, "= dict(((str(x), x) for x in L(1, [1, 2, 3][:v])), k=I(2, 7), j=I(3, 8))"),
    ("OrderedDict(genexpr)", ["collections.OrderedDict"], None,
     "= list(collections.OrderedDict((S(2, str(x)), I(3, x)) for x in L(1, [1, 2, 3][:v])).items())"),
    ("sorted(genexpr)", ["builtins.sorted"], None, "= sorted(I(2, -x) for x in L(1, [1, 2, 3][:v]))"),
    ("sorted(genexpr, reverse=)", ["builtins.sorted"], None, "= sorted((x for x in L(1, [3, 1, 2])), reverse=B(2, v == 1))"),
    ("sorted(genexpr, key=, reverse=)", ["builtins.sorted"], None,
     "= sorted((x for x in L(1, [3, 1, 2])), key=A(2, None), reverse=B(3, v == 1))"),
    ("sorted(genexpr, reverse=, key=)", ["builtins.sorted"], None,
     "= sorted((x for x in L(1, [3, 1, 2])), reverse=B(2, v == 1), key=A(3, None))"),
    ("min(a, b)", ["builtins.min"], None, "= min(I(1, v), I(2, 1))"),
    ("max(a, b)", ["builtins.max"], None, "= max(I(1, v), I(2, 1))"),
    ("min(float, float)", ["builtins.min"], None, "= min(F(1, v * 0.5), F(2, 0.5))"),
    ("min(native, native)", ["builtins.min"], None, "= min(K(1, v), K(2, 1)).n"),
    ("max(native, native)", ["builtins.max"], None, "= max(K(1, v), K(2, 1)).n"),
    ("min(a, b, c)", ["builtins.min"], None, "= min(I(1, v), I(2, 1), I(3, 2))"),
    ("min(list, default=)", ["builtins.min"], None, "= min(L(1, [3, 1, 2][:v]), default=I(2, -1))"),
    ("min(genexpr)", ["builtins.min"], None, "= min(I(2, x) for x in L(1, [3, 1, 2][:v + 1]))"),
    ("min(genexpr, default=)", ["builtins.min"], None, "= min((x for x in L(1, [3, 1, 2][:v])), default=I(2, -1))"),
    ("max(genexpr, default=)", ["builtins.max"], None, "= max((x for x in L(1, [3, 1, 2][:v])), default=I(2, -1))"),
    ("max(genexpr, key=, default=)", ["builtins.max"], None,
     "= max((x for x in L(1, [3, 1, 2][:v])), key=A(2, None), default=I(3, -1))"),
    ("str.join(genexpr)", ["join@str"], None, "= S(1, ',').join(S(3, str(x)) for x in L(2, [1, 2, 3][:v]))"),
    ("list.extend(genexpr)", ["extend@list"], None,
     "a = [0]\nL(1, a).extend(I(3, x) for x in L(2, [1, 2, 3][:v]))\nreturn a"),
    ("dict.update(genexpr)", ["update@dict"], None,
     "d: Dict[str, int] = {'a': 0}\nD(1, d).update((S(3, str(x)), x) for x in L(2, [1, 2, 3][:v]))\nreturn d"),
    ("set.update(genexpr)", ["update@set"], None,
     "s = {0}\nE(1, s).update(I(3, x) for x in L(2, [1, 2, 3][:v]))\nreturn s"),
    ("any(genexpr)", ["builtins.any"], None, "= any(x > v for x in L(1, [1, 2]))"),
    ("all(genexpr)", ["builtins.all"], None, "= all(x > v for x in L(1, [1, 2]))"),
    ("any(genexpr) in condition", ["builtins.any"], None, "if any(x > v for x in L(1, [1, 2])):\n    return I(2, 1)\nreturn I(3, 0)"),
    ("sum(genexpr)", ["builtins.sum"], None, "= sum(I(2, x) for x in L(1, [1, 2, 3][:v]))"),
    ("sum(genexpr, start)", ["builtins.sum"], None, "= sum((x for x in [1, 2, 3][:v]), I(1, 100))"),
    ("sum(iterable-tagged genexpr, start)", ["builtins.sum"], None, "= sum((x for x in L(1, [1, 2, 3][:v])), I(2, 100))"),
    ("sum(genexpr, start=)", ["builtins.sum"], None, "= sum((x for x in [1, 2, 3][:v]), start=I(1, 100))"),
    ("sum(float genexpr, start)", ["builtins.sum"], None, "= sum((x * 0.5 for x in [1, 2, 3][:v]), F(1, 0.25))"),
    ("next(genexpr)", ["builtins.next"], ["0", "2", "3"], "= next(I(3, x) for x in L(1, [1, 2, 3]) if B(2, x > v))"),
    ("next(genexpr, default)", ["builtins.next"], ["0", "2", "3"], "= next((x for x in [1, 2, 3] if x > v), I(1, -1))"),
    ("next(genexpr, default) then use", ["builtins.next"], ["0", "3"],
     "a = next((x * 2 for x in [1, 2, 3] if x > v), I(1, -1))\nb = next((str(x) for x in [1, 2] if x > v), S(2, 'none'))\nreturn (a, b)"),
    ("next(iterable-tagged genexpr, default)", ["builtins.next"], ["0", "3"],
     "= next((x for x in L(1, [1, 2, 3]) if x > v), I(2, -1))"),
    ("next(iterator, default)", [], ["0", "3"], "= next(iter(L(1, [1, 2, 3][v:])), I(2, -1))"),
    ("isinstance(x, int)", ["builtins.isinstance"], None, "= isinstance(O(1, [1, 'a', None][v]), int)"),
    ("isinstance(x, (int, str))", ["builtins.isinstance"], None, "= isinstance(O(1, [1, 'a', None][v]), (int, str))"),
    ("isinstance(x, native class)", ["builtins.isinstance"], None, "o = Ob(g, 1)\nreturn isinstance(O(1, [o, 'a', None][v]), Ob)"),
    ("isinstance(x, (native, native))", ["builtins.isinstance"], None,
     "o = Ob(g, 1)\nreturn isinstance(O(1, [o, Pt(1), None][v]), (Ob, Pt))"),
    ("isinstance(x, T())", ["builtins.isinstance"], None, "= isinstance(O(1, [1, 'a', None][v]), A(2, int))"),
    ("isinstance(x, (T(), U()))", ["builtins.isinstance"], None, "= isinstance(O(1, [1, 'a', None][v]), (A(2, int), A(3, str)))"),
    ("dict.setdefault(k, [])", ["setdefault@dict"], ["0", "1"],
     "d: Dict[str, List[int]] = {'a': [1]}\nx = d.setdefault(S(1, 'ab'[v]), [])\nx.append(5)\nreturn (x, d)"),
    ("dict.setdefault(k, {})", ["setdefault@dict"], ["0", "1"],
     "d: Dict[str, Dict[str, int]] = {'a': {'q': 1}}\nx = d.setdefault(S(1, 'ab'[v]), {})\nx['z'] = 5\nreturn (x, d)"),
    ("dict.setdefault(k, set())", ["setdefault@dict"], ["0", "1"],
     "d: Dict[str, Set[int]] = {'a': {1}}\nx = d.setdefault(S(1, 'ab'[v]), set())\nx.add(5)\nreturn (x, d)"),
    ("dict.setdefault(k, d)", ["setdefault@dict"], ["0", "1"], "d = {'a': 1}\nx = D(1, d).setdefault(S(2, 'ab'[v]), I(3, 9))\nreturn (x, d)"),
    ("'{}-{}'.format(a, b)", ["format@str"], None, "= '{}-{}'.format(I(1, v), S(2, 'x'))"),
    ("'{!r}:{:d}'.format(a, b)", ["format@str"], None, "= '{!r}:{:d}'.format(S(1, 'q'), I(2, v))"),
    ("'{}:{:d}'.format(str, bool)", ["format@str"], None, "= '{}:{:d}'.format(S(1, 'q'), B(2, v == 1))"),
    ("'{}:{:.1f}'.format(int, float)", ["format@str"], None, "= '{}:{:.1f}'.format(I(1, v), F(2, 1.25))"),
    ("'{}{}'.format(native, native)", ["format@str"], None, "= '{}{}'.format(K(1, v), K(2, 3))"),
    ("'{1}{0}'.format(a, b)", ["format@str"], None, "= '{1}{0}'.format(I(1, v), S(2, 'x'))"),
    ("'{a}{b}'.format(b=, a=)", ["format@str"], None, "= '{a}{b}'.format(b=I(1, v), a=S(2, 'x'))"),
    ("f'{a}-{b}'", ["join@str"], None, "= f'{I(1, v)}-{S(2, \"x\")}'"),
    ("f'{a!r}{b:.2f}'", ["join@str"], None, "= f'{S(1, \"q\")!r}{F(2, v * 0.5):.2f}'"),
    ("f'{native}{native}'", ["join@str"], None, "= f'{K(1, v)}{K(2, 3)}'"),
    ("f'{native!r}{native!s}'", ["join@str"], None, "= f'{K(1, v)!r}{K(2, 3)!s}'"),
    ("f'{a:{w}}'", ["join@str"], None, "= f'{I(1, v):{I(2, 4)}}'"),
    ("f'{a}{b}{c}' mixed types", ["join@str"], None, "= f'{B(1, v == 1)}{F(2, 0.5)}{O(3, None)}'"),
    ("'%s-%d' % (a, b)", [], None, "= '%s-%d' % (S(1, 'x'), I(2, v))"),
    ("'%s:%d' % (str, bool)", [], None, "= '%s:%d' % (S(1, 'x'), B(2, v == 1))"),
    ("'%s%s' % (native, native)", [], None, "= '%s%s' % (K(1, v), K(2, 3))"),
    ("'%s' % a", [], None, "= 'n=%s' % I(1, v)"),
    ("str.encode('utf-8')", ["encode@str"], None, "= S(1, 'a\\xe9\\u4e2d'[:v + 1]).encode('utf-8')"),
    ("str.encode('ascii')", ["encode@str"], None, "= S(1, 'a\\xe9\\u4e2d'[:v + 1]).encode('ascii')"),
    ("str.encode('latin-1')", ["encode@str"], None, "= S(1, 'a\\xe9\\u4e2d'[:v + 1]).encode('latin-1')"),
    ("str.encode(enc)", ["encode@str"], None, "= S(1, 'a\\xe9').encode(S(2, ['utf-8', 'ascii', 'latin1'][v]))"),
    ("str.encode('utf8', errors)", ["encode@str"], None, "= S(1, 'a\\xe9').encode('ascii', S(2, ['strict', 'ignore', 'replace'][v]))"),
    ("str.encode(encoding=, errors=)", ["encode@str"], None, "= S(1, 'a\\xe9').encode(encoding='utf-8', errors='strict')"),
    ("str.encode(errors=, encoding=)", ["encode@str"], None,
     "= S(1, 'a\\xe9').encode(errors=S(2, 'strict'), encoding=S(3, ['utf-8', 'ascii', 'latin1'][v]))"),
    ("bytes.decode('utf-8')", ["decode@bytes"], None, "= Y(1, [b'a', b'a\\xc3\\xa9', b'\\xff'][v]).decode('utf-8')"),
    ("bytes.decode('ascii')", ["decode@bytes"], None, "= Y(1, [b'a', b'a\\xc3\\xa9', b'\\xff'][v]).decode('ascii')"),
    ("bytes.decode('latin1')", ["decode@bytes"], None, "= Y(1, [b'a', b'a\\xc3\\xa9', b'\\xff'][v]).decode('latin1')"),
    ("bytes.decode(enc, errors)", ["decode@bytes"], None,
     "= Y(1, b'a\\xff').decode(S(2, 'ascii'), S(3, ['strict', 'ignore', 'replace'][v]))"),
    ("bytes.decode(errors=, encoding=)", ["decode@bytes"], None,
     "= Y(1, b'a\\xff').decode(errors=S(2, ['strict', 'ignore', 'replace'][v]), encoding=S(3, 'ascii'))"),
    ("i64(int) + i64(int)", ["mypy_extensions.i64"], None, "x: i64 = i64(I(1, v)) + i64(I(2, 1))\nreturn x"),
    ("i32(i64(int))", ["mypy_extensions.i32", "mypy_extensions.i64"], None, "x: i32 = i32(i64(I(1, v)))\nreturn x"),
    ("i16(i32(int))", ["mypy_extensions.i16", "mypy_extensions.i32"], None, "x: i16 = i16(i32(I(1, v)))\nreturn x"),
    ("u8(i16(int))", ["mypy_extensions.u8", "mypy_extensions.i16"], None, "x: u8 = u8(i16(I(1, v)))\nreturn x"),
    ("i64(u8(int))", ["mypy_extensions.i64", "mypy_extensions.u8"], None, "x: i64 = i64(u8(I(1, v)))\nreturn x"),
    ("i64(bool)", ["mypy_extensions.i64"], None, "x: i64 = i64(B(1, v == 1))\nreturn x"),
    ("int(i64)", ["builtins.int"], None, "x: i64 = I(1, v)\nreturn int(x) + I(2, 1)"),
    ("int(bool)", ["builtins.int"], None, "= int(B(1, v == 1))"),
    ("int(str)", ["builtins.int"], None, "= int(S(1, ['12', ' 7', 'x'][v]))"),
    ("int(str, base)", ["builtins.int"], None, "= int(S(1, '11'), I(2, [2, 10, 1][v]))"),
    ("bool(list)", ["builtins.bool"], None, "= bool(L(1, [1, 2][:v]))"),
    ("bool(int)", ["builtins.bool"], None, "= bool(I(1, v))"),
    ("bool(native with __bool__ and __len__)", ["builtins.bool"], None, "= bool(K(1, v))"),
    ("bool(object)", ["builtins.bool"], None, "= bool(O(1, [0, 'a', None][v]))"),
    ("float(float)", ["builtins.float"], None, "= float(F(1, v * 0.5))"),
    ("float(int)", ["builtins.float"], None, "= float(I(1, v))"),
    ("float(str)", ["builtins.float"], None, "= float(S(1, ['1.5', 'nan', 'x'][v]))"),
    ("ord(str)", ["builtins.ord"], None, "= ord(S(1, ['a', '\\xe9', 'ab'][v]))"),
    ("ord(str[i])", ["builtins.ord"], ["0", "2", "5", "-1", "-9"], "= ord(S(1, 'ab\\u4e2d')[I(2, v)])"),
    ("ord(bytes[i])", ["builtins.ord"], None, "= Y(1, b'abc')[I(2, v)] + ord('a')"),
    ("object.__new__(cls)", ["__new__@object"], None, "= NewC(g, I(1, v)).v"),
    ("super().__setattr__(name, value)", ["__setattr__@object"], None, "o = SetC(g)\no.put(g, r, v)\nreturn o.a"),
    ("self.attr = v in a method defined after __setattr__", [], None, "o = SetC(g)\no.after(I(1, v))\nreturn o.a"),
    ("self.attr = v in a method defined before __setattr__", [], None, "o = SetC(g)\no.before(I(1, v))\nreturn o.a"),
    ("o.attr = v with user __setattr__", [], None, "o = SetC(g)\no.a = I(1, v)\nreturn o.a"),
    ("int.to_bytes(n, 'little')", ["to_bytes@int"], None, "= I(1, 258 + v).to_bytes(I(2, 2), 'little')"),
    ("int.to_bytes(n, 'big')", ["to_bytes@int"], None, "= I(1, 258 + v).to_bytes(I(2, 2 - v), 'big')"),
    ("int.to_bytes(n, order)", ["to_bytes@int"], None, "= I(1, 258).to_bytes(I(2, 2), W(3, 'big' if v else 'little'))"),
    ("int.to_bytes(n, 'little', signed=)", ["to_bytes@int"], None, "= I(1, v - 2).to_bytes(I(2, 2), 'little', signed=B(3, v < 2))"),
    ("int.to_bytes(n, order, signed=)", ["to_bytes@int"], None,
     "= I(1, v - 2).to_bytes(I(2, 2), W(3, 'big'), signed=B(4, v < 2))"),
    ("int.to_bytes(byteorder=, length=)", ["to_bytes@int"], None, "= I(1, 258 + v).to_bytes(byteorder=W(2, 'big'), length=I(3, 2))"),
    ("int.to_bytes(length=, byteorder='little')", ["to_bytes@int"], None, "= I(1, 258 + v).to_bytes(length=I(2, 2), byteorder='little')"),
    ("int.to_bytes(signed=, length=, byteorder=)", ["to_bytes@int"], None,
     "= I(1, v - 2).to_bytes(signed=B(2, True), length=I(3, 2), byteorder=W(4, 'big'))"),
    ("bytes[i]", ["__getitem__@bytes"], ["0", "2", "3", "-1", "-4"], "= Y(1, b'abc')[I(2, v)]"),
    # ---------------------------------------------------------------- short-circuit / conditional contexts
    ("a if c else b", [], None, "= I(2, 10) if B(1, v == 1) else I(3, 20)"),
    ("nested conditional expression", [], None, "= I(2, 10) if B(1, v == 1) else I(4, 20) if B(3, v == 2) else I(5, 30)"),
    ("a and b", [], None, "= I(1, v) and I(2, 5)"),
    ("a or b", [], None, "= I(1, v) or I(2, 5)"),
    ("a and b or c", [], None, "= B(1, v == 1) and B(2, False) or B(3, v == 2)"),
    ("a or b and c", [], None, "= B(1, v == 1) or B(2, v == 2) and B(3, True)"),
    ("not a", [], None, "= not B(1, v == 1)"),
    ("native and native", [], None, "= (K(1, v) and K(2, 5)).n"),
    ("native or native", [], None, "= (K(1, v) or K(2, 5)).n"),
    ("if native:", [], None, "if K(1, v):\n    return I(2, 1)\nreturn I(3, 0)"),
    ("if not native:", [], None, "if not K(1, v):\n    return I(2, 1)\nreturn I(3, 0)"),
    ("if list and str:", [], None, "if L(1, [1][:v]) and S(2, 'a' * (v - 1)):\n    return I(3, 1)\nreturn I(4, 0)"),
    ("if/elif/else", [], None, "if B(1, v == 0):\n    return I(2, 0)\nelif B(3, v == 1):\n    return I(4, 1)\nelse:\n    return I(5, 2)"),
    ("while cond", [], None, "n = 0\nwhile B(1, n < v):\n    n += I(2, 1)\nelse:\n    n += I(3, 10)\nreturn n"),
    ("assert cond, msg", [], None, "assert B(1, v == 1), S(2, 'P:msg')\nreturn 'ok'"),
    ("a < b < c", [], None, "= I(1, v) < I(2, 1) < I(3, 2)"),
    ("a == b != c", [], None, "= I(1, v) == I(2, 1) != I(3, 1)"),
    ("a < b <= c > d", [], None, "= I(1, v) < I(2, 2) <= I(3, 2) > I(4, 0)"),
    ("float a < b < c", [], None, "= F(1, v * 1.0) < F(2, 1.0) < F(3, 2.0)"),
    ("native a < b < c", [], None, "= K(1, v) < K(2, 1) < K(3, 2)"),
    ("native a == b", [], None, "= K(1, v) == K(2, 1)"),
    ("native a != b", [], None, "= K(1, v) != K(2, 1)"),
    ("a is b", [], None, "= O(1, None) is O(2, [None, 'x', None][v])"),
    ("a in list", [], None, "= I(1, v) in L(2, [1, 5])"),
    ("a not in dict", [], None, "= S(1, 'ab'[v % 2]) not in D(2, {'a': 1})"),
    ("a in str", [], None, "= S(1, 'ab'[v % 2]) in S(2, 'xa')"),
    ("a in native with __contains__", [], None, "= I(1, v) in K(2, 1)"),
    ("a in (b, c)", [], None, "= I(1, v) in (I(2, 0), I(3, 1))"),
    ("a not in (b, c)", [], None, "= I(1, v) not in (I(2, 0), I(3, 1))"),
    ("a in [b, c]", [], None, "= I(1, v) in [I(2, 0), I(3, 1)]"),
    ("a in {b, c}", [], None, "= I(1, v) in {I(2, 0), I(3, 1)}"),
    ("str a in (b, c)", [], None, "= S(1, 'abc'[v]) in (S(2, 'a'), S(3, 'b'))"),
    ("object a in (b, c)", [], None, "= O(1, [0, 'b', None][v]) in (O(2, 0), O(3, 'b'))"),
    ("native a in (b, c)", [], None, "= K(1, v) in (K(2, 0), K(3, 1))"),
    ("a in (b, c) in condition", [], None, "if I(1, v) in (I(2, 0), I(3, 1)):\n    return I(4, 1)\nreturn I(5, 0)"),
    # ---------------------------------------------------------------- subscripts / slicing
    ("list[i]", [], ["0", "2", "3", "-1", "-4"], "= L(1, [5, 6, 7])[I(2, v)]"),
    ("str[i]", [], ["0", "2", "3", "-1", "-4"], "= S(1, 'abc')[I(2, v)]"),
    ("tuple[i]", [], ["0", "1"], "= T(1, (5, 6))[I(2, v)]"),
    ("dict[k]", [], ["0", "1"], "= D(1, {'a': 1})[S(2, 'ab'[v])]"),
    ("native[i]", [], ["0", "3"], "= K(1, 5)[I(2, v)]"),
    ("list[a:b]", [], None, "= L(1, [1, 2, 3, 4])[I(2, v):I(3, 3)]"),
    ("list[a:b:c]", [], None, "= L(1, [1, 2, 3, 4])[I(2, 0):I(3, 4):I(4, v)]"),
    ("list[a:]", [], None, "= L(1, [1, 2, 3, 4])[I(2, v):]"),
    ("list[:b]", [], None, "= L(1, [1, 2, 3, 4])[:I(2, -v)]"),
    ("str[a:b]", [], None, "= S(1, 'abcd')[I(2, v):I(3, 3)]"),
    ("tuple[a:b]", [], None, "t = (1, 2, 3, 4)\nreturn t[I(1, v):I(2, 3)]"),
    ("bytes[a:b]", [], None, "= Y(1, b'abcd')[I(2, v):I(3, 3)]"),
    ("list[a:b] = c", [], None, "lst = [1, 2, 3]\nL(1, lst)[I(2, v):I(3, 2)] = L(4, [8, 9])\nreturn lst"),
    ("del list[a:b]", [], None, "lst = [1, 2, 3]\ndel L(1, lst)[I(2, 0):I(3, v)]\nreturn lst"),
    ("del a[i], d[k]", [], None, "lst = [1, 2, 3]\nd = {'a': 1}\ndel L(1, lst)[I(2, v)], D(3, d)[S(4, 'ab'[v % 2])]\nreturn (lst, d)"),
    # ---------------------------------------------------------------- displays
    ("[a, b, c]", [], None, "= [I(1, v), I(2, 2), I(3, 3)]"),
    ("(a, b, c)", [], None, "= (I(1, v), S(2, 'x'), F(3, 0.5))"),
    ("{a, b, c}", [], None, "= {I(1, v), I(2, 1), I(3, 2)}"),
    ("{k: v, k: v}", [], None, "= {S(1, 'a'): I(2, v), S(3, 'ab'[v % 2]): I(4, 9)}"),
    ("[a, *b, c]", [], None, "= [I(1, v), *L(2, [7, 8]), I(3, 9)]"),
    ("(a, *b, c)", [], None, "= (I(1, v), *L(2, [7, 8]), I(3, 9))"),
    ("{a, *b, c}", [], None, "= {I(1, v), *L(2, [7, 8]), I(3, 9)}"),
    ("[*a, *b]", [], None, "= [*L(1, [1][:v]), *S(2, 'ab')]"),
    ("(*a, b)", [], None, "= (*S(1, 'ab'), I(2, v))"),
    ("{k: v, **d, k: v}", [], None, "= {S(1, 'a'): I(2, v), **D(3, {'a': 7, 'b': 2}), S(4, 'b'): I(5, 3)}"),
    ("{**a, **b}", [], None, "= {**D(1, {'a': 1, 'b': 2}), **D(2, {'a': v})}"),
    # ---------------------------------------------------------------- assignment targets
    ("a[i] = v", [], None, "lst = [1, 2, 3]\nL(1, lst)[I(2, v * 2)] = I(3, 9)\nreturn lst"),
    ("d[k] = v", [], None, "d = {'a': 1}\nD(1, d)[S(2, 'ab'[v % 2])] = I(3, v)\nreturn d"),
    ("native[i] = v", [], None, "o = Ob(g, 1)\nP(1, o)[I(2, v)] = I(3, 4)\nreturn o.n"),
    ("o.attr = v", [], None, "o = Ob(g, 1)\nP(1, o).n = I(2, v)\nreturn o.n"),
    ("x = a[i] = v", [], None, "lst = [1, 2, 3]\nx = L(1, lst)[I(2, 0)] = I(3, v)\nreturn (x, lst)"),
    ("a[i], b[j] = v, w", [], None, "p = [1, 2]\nq = [3, 4]\nL(1, p)[I(2, 0)], L(3, q)[I(4, v)] = I(5, 8), I(6, 9)\nreturn (p, q)"),
    ("o.a, o.b = tuple", [], None, "o = Ob(g, 1)\no2 = Ob(g, 2)\nP(1, o).n, P(2, o2).n = T(3, (v, 5))\nreturn (o.n, o2.n)"),
    ("a, b = list", [], None, "a, b = L(1, [1, 2, 3][:v + 1])\nreturn (a, b)"),
    ("a, *b = list", [], None, "a, *b = L(1, [1, 2, 3][:v])\nreturn (a, b)"),
    ("a, b = b, a", [], None, "a = I(1, v)\nb = I(2, 5)\na, b = b, a\nreturn (a, b)"),
    ("a[i] += v", [], None, "lst = [1, 2, 3]\nL(1, lst)[I(2, v * 2)] += I(3, 10)\nreturn lst"),
    ("d[k] += v", [], None, "d = {'a': 1}\nD(1, d)[S(2, 'ab'[v % 2])] += I(3, 5)\nreturn d"),
    ("o.attr += v", [], None, "o = Ob(g, 1)\nP(1, o).n += I(2, v)\nreturn o.n"),
    ("native[i] += v", [], None, "o = Ob(g, 1)\nP(1, o)[I(2, v)] += I(3, 4)\nreturn o.n"),
    ("list += list", [], None, "lst = [1]\nx = L(1, lst)\nx += L(2, [v])\nreturn (x, lst)"),
    ("str attr += str", [], None, "s = S(1, 'a')\ns += S(2, 'b' * v)\nreturn s"),
    ("y := a", [], None, "= (y := I(1, v)) + I(2, y)"),
    # ---------------------------------------------------------------- calls
    ("f(a, b, c)", [], None, "= f3(I(1, v), I(2, 2), I(3, 3))"),
    ("f(b=, a=)", [], None, "= f3(b=I(1, v), a=I(2, 5))"),
    ("f(a, c=, b=)", [], None, "= f3(I(1, v), c=I(2, 1), b=I(3, 2))"),
    ("f(c=, b=, a=)", [], None, "= f3(c=I(1, v), b=I(2, 1), a=I(3, 2))"),
    ("f(*a)", [], None, "= f3(*L(1, [v, 2, 3][:v + 1]))"),
    ("f(*a, **d)", [], None, "= f3(*L(1, [v]), **D(2, {'b': 3}))"),
    ("f(a, *b, c=)", [], None, "= f4(I(1, v), *L(2, [2]), c=I(3, 3))"),
    ("f(**a, **b)", [], None, "= f3(**D(1, {'a': v}), **D(2, {'b': 1}))"),
    ("f(c=, *a)", [], None, "= f4(c=I(1, 1), *L(2, [v, 2]))"),
    ("f(a, **d, c=)", [], None, "= fk(I(1, v), **D(2, {'y': 1}), k=I(3, 3))"),
    ("f(*a, *b)", [], None, "= f3(*L(1, [v]), *L(2, [2, 3]))"),
    ("f(cond-expr, b)", [], None, "= f3(I(2, v) if B(1, v > 0) else I(3, 9), I(4, 1))"),
    ("varargs f(a, b, c, k=, z=)", [], None, "= fk(I(1, v), I(2, 2), I(3, 3), z=I(4, 4), k=I(5, 5))"),
    ("varargs f(a, *b, **d)", [], None, "= fk(I(1, v), *L(2, [2, 3]), **D(3, {'k': 1, 'y': 2}))"),
    ("method(b=, a=)", [], None, "o = Ob(g, 1)\nreturn P(1, o).meth(b=I(2, v), a=I(3, 1))"),
    ("method(a, b)", [], None, "o = Ob(g, 1)\nreturn P(1, o).meth(I(2, v), I(3, 1))"),
    ("native constructor(y=, x=)", [], None, "= Pt(y=I(1, v), x=I(2, 2)).tup()"),
    ("native constructor(x, z=, y=)", [], None, "= Pt(I(1, v), z=I(2, 2), y=I(3, 3)).tup()"),
    ("Any callee(b=, a=)", [], None, "fa: Any = f3\nreturn fa(b=I(1, v), a=I(2, 5))"),
    ("tagged callee(a, b=)", [], None, "= A(1, f3)(I(2, v), b=I(3, 1))"),
    ("Any callee(*a, **d)", [], None, "fa: Any = f3\nreturn fa(*L(1, [v]), **D(2, {'b': 3}))"),
    ("Any receiver.method(a, b=)", [], None, "o = Ob(g, 1)\nreturn A(1, o).meth(I(2, v), b=I(3, 1))"),
    ("Any receiver.method(b=, a=)", [], None, "o = Ob(g, 1)\nreturn A(1, o).meth(b=I(2, v), a=I(3, 1))"),
    ("lambda call", [], None, "= (lambda a, b: a - b)(I(1, v), I(2, 1))"),
    ("nested def defaults", [], None,
     "def inner(a: int = I(1, v), b: int = I(2, 5)) -> int:\n    return a * 10 + b\ng.append('def')\nreturn (inner(), inner(I(3, 1)), inner(b=I(4, 2)))"),
    ("nested def keyword-only defaults", [], None,
     "def inner(*, a: int = I(1, v), b: int = I(2, 5)) -> int:\n    return a * 10 + b\ng.append('def')\nreturn (inner(), inner(b=I(3, 1), a=I(4, 2)))"),
    ("lambda defaults", [], None, "f = lambda a=I(1, v), b=I(2, 2): a * 10 + b\ng.append('def')\nreturn (f(), f(I(3, 1)))"),
    ("print(a, b, sep=, end=)", [], None, "print(S(1, 'a'), I(2, v), sep=S(3, '-'), end=S(4, '!'))\nreturn None"),
    # ---------------------------------------------------------------- builtins and methods with several arguments
    ("dict.get(k, d)", [], ["0", "1"], "= D(1, {'a': 1}).get(S(2, 'ab'[v]), I(3, -1))"),
    ("dict.get(k)", [], ["0", "1"], "= D(1, {'a': 1}).get(S(2, 'ab'[v]))"),
    ("dict.pop(k, d)", [], ["0", "1"], "d = {'a': 1}\nx = D(1, d).pop(S(2, 'ab'[v]), I(3, -1))\nreturn (x, d)"),
    ("dict.pop(k)", [], ["0", "1"], "d = {'a': 1}\nx = D(1, d).pop(S(2, 'ab'[v]))\nreturn (x, d)"),
    ("dict.update(d)", [], None, "d = {'a': 1}\nD(1, d).update(D(2, {'a': v, 'b': 2}))\nreturn d"),
    ("dict | dict", [], None, "= D(1, {'a': 1}) | D(2, {'a': v, 'b': 2})"),
    ("getattr(native, name, d)", [], None, "o = Ob(g, 1)\nreturn getattr(P(1, o), S(2, ['n', 'zz', 'g'][v]), I(3, -1)) is None"),
    ("getattr(Any, name, d)", [], None, "o = Ob(g, 1)\nreturn getattr(A(1, o), S(2, ['n', 'zz', 'n'][v]), I(3, -1))"),
    ("getattr(object, 'lit', d)", [], None, "o = Ob(g, 1)\nreturn getattr(O(1, [o, 5, None][v]), 'n', I(2, -1))"),
    ("getattr(object, name)", [], None, "o = Ob(g, 1)\nreturn getattr(O(1, o), S(2, ['n', 'zz', 'n'][v]))"),
    ("setattr(object, name, v)", [], None, "o = Ob(g, 1)\nsetattr(O(1, o), S(2, 'n'), I(3, 8 + v))\nreturn o.n"),
    ("hasattr(object, name)", [], None, "o = Ob(g, 1)\nreturn hasattr(O(1, o), S(2, ['n', 'zz', 'g'][v]))"),
    ("list.pop(i)", [], ["0", "2", "3", "-1"], "lst = [1, 2, 3]\nx = L(1, lst).pop(I(2, v))\nreturn (x, lst)"),
    ("list.insert(i, x)", [], None, "lst = [1, 2]\nL(1, lst).insert(I(2, v), I(3, 9))\nreturn lst"),
    ("list.append(x)", [], None, "lst = [1, 2]\nL(1, lst).append(I(2, v))\nreturn lst"),
    ("list.index(x)", [], None, "= L(1, [0, 1]).index(I(2, v))"),
    ("list.extend(list)", [], None, "lst = [1]\nL(1, lst).extend(L(2, [v]))\nreturn lst"),
    ("set.add(x)", [], None, "s = {1}\nE(1, s).add(I(2, v))\nreturn s"),
    ("set.discard(x)", [], None, "s = {1}\nE(1, s).discard(I(2, v))\nreturn s"),
    ("str.replace(a, b)", [], None, "= S(1, 'abcab').replace(S(2, 'ab'[v % 2]), S(3, 'x'))"),
    ("str.split(sep, n)", [], None, "= S(1, 'a,b,c').split(S(2, ','), I(3, v))"),
    ("str.startswith(a)", [], None, "= S(1, 'abc').startswith(S(2, 'abc'[v]))"),
    ("str.startswith((a, b))", [], None, "= S(1, 'abc').startswith((S(2, 'abc'[v]), S(3, 'b')))"),
    ("str.find(a, i)", [], None, "= S(1, 'abcab').find(S(2, 'ab'), I(3, v))"),
    ("str.join(list)", [], None, "= S(1, ',').join([S(2, 'a'), S(3, 'b' * v)])"),
    ("format(a, spec)", [], None, "= format(I(1, v), S(2, '03d'))"),
    ("dict(a=, b=)", [], None, "= dict(a=I(1, v), b=I(2, 2))"),
    ("dict(d, c=)", [], None, "= dict(D(1, {'a': 1}), c=I(2, v))"),
    ("sorted(list, reverse=)", [], None, "= sorted(L(1, [3, 1, 2]), reverse=B(2, v == 1))"),
    ("list(zip(a, b))", [], None, "= list(zip(L(1, [1, 2]), L(2, [3, 4][:v])))"),
    ("sum(list, start)", [], None, "= sum(L(1, [1, 2]), I(2, v))"),
    ("divmod(a, b)", [], None, "= divmod(I(1, 7), I(2, v))"),
    ("pow(a, b, m)", [], None, "= pow(I(1, 2), I(2, v), I(3, 5))"),
    ("round(x, n)", [], None, "= round(F(1, 2.567), I(2, v))"),
    ("range(a, b, c) as value", [], None, "= list(range(I(1, 0), I(2, 5), I(3, v)))"),
    ("issubclass(a, b)", [], None, "= issubclass(A(1, bool), A(2, [int, str, bool][v]))"),
    ("str(a) + repr(b)", [], None, "= str(I(1, v)) + repr(S(2, 'q'))"),
    ("str(native) + repr(native)", [], None, "= str(K(1, v)) + repr(K(2, 3))"),
    # ---------------------------------------------------------------- binary / unary operators
    ("a + b", [], None, "= I(1, v) + I(2, 1)"),
    ("a // b", [], None, "= I(1, 7) // I(2, v)"),
    ("a % b", [], None, "= I(1, 7) % I(2, v)"),
    ("a / b float", [], None, "= F(1, 1.5) / F(2, v * 1.0)"),
    ("a << b", [], None, "= I(1, v) << I(2, 2)"),
    ("a ** b", [], None, "= I(1, 2) ** I(2, v)"),
    ("i64 a // b", [], None, "x: i64 = I(1, 7)\ny: i64 = I(2, v)\nreturn x // y"),
    ("i64 a << b", [], None, "x: i64 = I(1, 7)\ny: i64 = I(2, v)\nreturn x << y"),
    ("str + str", [], None, "= S(1, 'a') + S(2, 'b' * v)"),
    ("str * int", [], None, "= S(1, 'ab') * I(2, v)"),
    ("str % tuple", [], None, "= S(1, '%d-%s') % (I(2, v), S(3, 'x'))"),
    ("list + list", [], None, "= L(1, [1]) + L(2, [v])"),
    ("list * int", [], None, "= L(1, [1]) * I(2, v)"),
    ("tuple + tuple", [], None, "= T(1, (v, 1)) + T(2, (2, 3))"),
    ("tuple == tuple", [], None, "= T(1, (v, 1)) == T(2, (0, 1))"),
    ("tuple < tuple", [], None, "= T(1, (v, 1)) < T(2, (1, 1))"),
    ("native + native", [], None, "= (K(1, v) + K(2, 1)).n"),
    ("-native", [], None, "= (-K(1, v)).n"),
    ("-a, ~a", [], None, "= (-I(1, v), ~I(2, v))"),
    ("object + object", [], None, "= A(1, [1, 'a', None][v]) + A(2, 1)"),
    # ---------------------------------------------------------------- statements with several operands
    ("raise a from b", [], None,
     "try:\n    raise A(1, ValueError('P:a')) from A(2, [KeyError('P:b'), None, 5][v])\nexcept ValueError as e:\n    return (str(e), type(e.__cause__).__name__)"),
    ("with a, b", [], None,
     "with CM(g, I(1, 1), v) as a, CM(g, I(2, 2), v) as b:\n    g.append('body')\n    I(3, a + b)\nreturn 'done'"),
    ("nested with", [], None,
     "with CM(g, I(1, 1), v) as a:\n    with CM(g, I(2, 2), v) as b:\n        g.append('body')\n        I(3, a + b)\n    g.append('between')\nreturn 'done'"),
    ("with a: return", [], None, "with CM(g, I(1, 2), v) as a:\n    return I(2, a)\nreturn I(3, -1)"),
    ("for x in range(a, b, c)", [], None, "out = []\nfor x in range(I(1, 0), I(2, 4), I(3, v)):\n    out.append(x)\nreturn out"),
    ("for x in range(a, b)", [], None, "out = []\nfor x in range(I(1, v), I(2, 3)):\n    out.append(x)\nelse:\n    out.append(-1)\nreturn out"),
    ("for i, x in enumerate(a, s)", [], None, "out = []\nfor i, x in enumerate(L(1, [5, 6]), I(2, v)):\n    out.append((i, x))\nreturn out"),
    ("for a, b in zip(x, y)", [], None, "out = []\nfor a, b in zip(L(1, [1, 2]), L(2, [3, 4][:v])):\n    out.append((a, b))\nreturn out"),
    ("for a, b, c in zip(x, y, z)", [], None,
     "out = []\nfor a, b, c in zip(L(1, [1, 2]), S(2, 'ab'), range(I(3, v))):\n    out.append((a, b, c))\nreturn out"),
    ("for k, v in dict.items()", [], None, "out = []\nfor k, w in D(1, {'a': v, 'b': 2}).items():\n    out.append((k, I(2, w)))\nreturn out"),
    ("for x in reversed(a)", [], None, "out = []\nfor x in reversed(L(1, [1, 2, 3][:v])):\n    out.append(I(2, x))\nreturn out"),
    ("[f(x) for x in a]", [], None, "= [I(2, x) for x in L(1, [1, 2, 3][:v])]"),
    ("[f(x) for x in a if c]", [], None, "= [I(3, x) for x in L(1, [1, 2, 3]) if B(2, x > v)]"),
    ("[.. for x in a for y in b]", [], None, "= [(x, y) for x in L(1, [1, 2]) for y in L(2, [3, 4][:v])]"),
    ("{k: v for x in a}", [], None, "= {S(2, str(x)): I(3, x) for x in L(1, [1, 2][:v])}"),
    ("{f(x) for x in a}", [], None, "= {I(2, x % 2) for x in L(1, [1, 2, 3][:v])}"),
    ("match literal / or / guard", [], None,
     "match I(1, v):\n    case 0:\n        return S(2, 'zero')\n    case 1 | 2 if B(3, v == 2):\n        return S(4, 'guarded')\n    case _:\n        return S(5, 'other')"),
    ("match sequence pattern", [], None,
     "match L(1, [1, 2, 3][:v + 1]):\n    case [a]:\n        return ('one', I(2, a))\n    case [a, *rest] if B(3, len(rest) > 1):\n        return ('many', a, rest)\n    case _:\n        return I(4, -1)"),
    ("match mapping pattern", [], None,
     "match D(1, {'a': v, 'b': 2}):\n    case {'a': 0}:\n        return I(2, 0)\n    case {'a': x, 'b': y} if B(3, x == 1):\n        return (x, y)\n    case _:\n        return I(4, -1)"),
    ("match class pattern", [], None,
     "match A(1, [Pt(0, 1), Pt(1, 2), 5][v]):\n    case Pt(x=0, y=yy):\n        return ('x0', I(2, yy))\n    case Pt(x=xx) if B(3, xx > 0):\n        return ('pt', xx)\n    case _:\n        return I(4, -1)"),
    ("try / except tagged handler types", [], None,
     "try:\n    if v == 1:\n        raise KeyError('P:k')\n    if v == 2:\n        raise IndexError('P:i')\n    return I(1, 0)\nexcept A(2, ValueError):\n    return 'V'\nexcept (A(3, KeyError), A(4, OSError)):\n    return 'K'\nfinally:\n    g.append('fin')"),
    ("decorated nested def", [], None,
     "def deco(tag: str) -> Any:\n    g.append('make' + tag)\n    def wrap(f: Any) -> Any:\n        g.append('apply' + tag)\n        return f\n    return wrap\n@deco(S(1, 'a'))\n@deco(S(2, 'b'))\ndef inner() -> int:\n    return v\nreturn inner()"),
    ("cast(T, x)", [], None, "= cast(int, A(1, v)) + cast(int, I(2, 1))"),
    ("bytes % tuple", [], None, "= Y(1, b'%d-%s') % (I(2, v), Y(3, b'x'))"),
    ("return in with in loop", [], None,
     "for i in range(I(1, 3)):\n    with CM(g, I(2, i), 0) as a:\n        if a == v:\n            return I(3, a)\nreturn I(4, -1)"),
    # ---------------------------------------------------------------- operand read before a later operand changes it
    ("x + f() where f rebinds x", [], None, "x = v\ndef bump() -> int:\n    nonlocal x\n    x += 10\n    return 1\nreturn (x + bump(), x)"),
    ("(x, f(), x) where f rebinds x", [], None, "x = v\ndef bump() -> int:\n    nonlocal x\n    x += 10\n    return 1\nreturn (x, bump(), x)"),
    ("o.n + o.bump()", [], None, "o = Ob(g, v)\nreturn (o.n + o.bump(), o.n)"),
    ("o.n < o.bump()", [], None, "o = Ob(g, v)\nreturn (o.n < o.bump(), o.n)"),
    ("f(o.n, o.bump(), o.n)", [], None, "o = Ob(g, v)\nreturn f3(o.n, o.bump(), o.n)"),
    ("[o.n, o.bump(), o.n]", [], None, "o = Ob(g, v)\nreturn [o.n, o.bump(), o.n]"),
    ("l[0] + popret(l)", [], None, "l = [v]\nreturn (l[0] + popret(l), l)"),
    ("f(x, (x := ..), x)", [], None, "x = v\nreturn f3(x, (x := x + 5), x)"),
    ("s + f() where f rebinds str s", [], None, "s = 'a' * v\ndef ext() -> str:\n    nonlocal s\n    s += 'z'\n    return 'e'\nreturn (s + ext(), s)"),
]


def expand_form(text: str) -> tuple[list[str], int]:
    """(body lines, number of tagged operand positions)."""
    body = _TAG.sub(lambda m: f"t{m.group(1)}(g, {m.group(2)}, r,", text)
    if body.startswith("= "):
        body = "return " + body[2:]
    n = max([int(x) for x in _TAGNUM.findall(body)] + [0])
    return body.split("\n"), n


def family_o() -> tuple[list[dict], dict]:
    units: list[dict] = []
    labels: set[str] = set()
    for k, (label, spec, vdom, text) in enumerate(O_FORMS):
        assert label not in labels, label
        labels.add(label)
        lines, n = expand_form(text)
        name = f"o_{k:03d}"
        src = [f"def {name}(g: List[str], r: int, v: int) -> Any:"] + ["    " + ln for ln in lines] + [""]
        prelude = [O_PRELUDE]
        if "NewC" in text:
            prelude.append(O_NEW_PRELUDE)
        if "SetC" in text:
            prelude.append(O_SETATTR_PRELUDE)
        units.append({"name": name, "family": "o", "construct": f"evaluation order: {label}", "sigkey": label,
                      "src": "\n".join(src), "doms": [["[]"], [str(i) for i in range(n + 1)], vdom or V3],
                      "calls": [f"M.{name}(a0, a1, a2)"], "alias": False, "prelude": prelude, "spec": spec,
                      "n_tags": n})
    return units, {"forms": len(units), "tagged_operand_positions": sum(u["n_tags"] for u in units)}


O_SPEC_EXCLUDED = {
    "dataclasses.field": "declaration-time helper (marks the result Any), no call semantics of its own",
    "attr.ib": "declaration-time helper (needs the attrs package)",
    "attr.attrib": "declaration-time helper (needs the attrs package)",
    "attr.Factory": "declaration-time helper (needs the attrs package)",
}


def specializer_coverage(units: list[dict]) -> dict[str, Any]:
    """Every (name, type) key registered in mypyc.irbuild.specialize vs the forms written for it."""
    import mypy.build  # noqa: F401
    from mypyc.irbuild import specialize as sp

    keys: list[str] = []
    for (name, typ) in list(sp.specializers) + list(sp.dunder_specializers):
        tn = getattr(typ, "name", None) if typ is not None else None
        tn = tn.split(".")[-1] if isinstance(tn, str) else (str(typ) if typ is not None else None)
        keys.append(name if tn is None else f"{name}@{tn}")
    covered: dict[str, int] = {}
    for u in units:
        for s in u.get("spec", []):
            covered[s] = covered.get(s, 0) + 1
    excluded = {}
    missing = []
    for k in sorted(set(keys)):
        if k in covered:
            continue
        if k in O_SPEC_EXCLUDED:
            excluded[k] = O_SPEC_EXCLUDED[k]
        elif "librt" in k or "vec" in k or "writer" in k.lower():
            excluded[k] = "librt"
        else:
            missing.append(k)
    return {"registered": len(set(keys)), "with_forms": {k: covered[k] for k in sorted(covered) if k in set(keys)},
            "excluded_by_rule": excluded, "without_forms": missing,
            "forms_naming_unregistered_keys": sorted(k for k in covered if k not in set(keys))}
