"""Exploration kernel: fork-isolated execution, parallel map, BFS to closure, deviation-bounded DFS.

No exploration here samples: every combinator enumerates a finite space completely, in a
canonical simplest-first order.
"""

from __future__ import annotations

import itertools
import os
import pickle
import select
import signal
import sys
import time
import traceback
from collections import deque
from typing import Any, Callable, Hashable, Iterable, Iterator, Sequence

from mc.common import NCPU

# --------------------------------------------------------------------------- fork isolation


class ExecError(Exception):
    """The isolated child crashed, timed out or raised; .kind in {timeout, signal, exception, exit}."""

    def __init__(self, kind: str, info: str) -> None:
        super().__init__(f"{kind}: {info}")
        self.kind = kind
        self.info = info


def run_isolated(fn: Callable[..., Any], *args: Any, timeout: float = 120.0, **kw: Any) -> Any:
    """Run fn(*args) in a freshly forked child; return its (picklable) result.

    A real `mypy` invocation is a fresh process: module-level state (type_state, instance_cache,
    TypeVarId counters, lru caches) starts from whatever the parent had at fork time, which is
    "imported, never built".  Raises ExecError for crashes / timeouts.
    """
    r, w = os.pipe()
    pid = os.fork()
    if pid == 0:
        code = 0
        try:
            os.close(r)
            try:
                out = ("ok", fn(*args, **kw))
            except BaseException as e:  # noqa: BLE001 - must report everything incl. SystemExit
                out = ("exc", f"{type(e).__name__}: {e}\n{traceback.format_exc()}")
            data = pickle.dumps(out)
            with os.fdopen(w, "wb") as f:
                f.write(data)
        except BaseException:  # noqa: BLE001
            code = 3
        finally:
            os._exit(code)
    os.close(w)
    chunks: list[bytes] = []
    deadline = time.time() + timeout
    timed_out = False
    try:
        while True:
            left = deadline - time.time()
            if left <= 0:
                timed_out = True
                break
            rl, _, _ = select.select([r], [], [], left)
            if not rl:
                timed_out = True
                break
            b = os.read(r, 1 << 16)
            if not b:
                break
            chunks.append(b)
    finally:
        os.close(r)
    if timed_out:
        try:
            os.kill(pid, signal.SIGKILL)
        except ProcessLookupError:
            pass
        os.waitpid(pid, 0)
        raise ExecError("timeout", f"no result after {timeout}s")
    _, status = os.waitpid(pid, 0)
    if os.WIFSIGNALED(status):
        raise ExecError("signal", f"child died with signal {os.WTERMSIG(status)}")
    if not chunks:
        raise ExecError("exit", f"child exited with status {os.WEXITSTATUS(status)} and no result")
    kind, val = pickle.loads(b"".join(chunks))
    if kind == "exc":
        raise ExecError("exception", val)
    return val


def _pool_call(packed: tuple[Callable[..., Any], Any, bool, float]) -> tuple[str, Any]:
    fn, item, fresh, timeout = packed
    try:
        if fresh:
            return ("ok", run_isolated(fn, item, timeout=timeout))
        return ("ok", fn(item))
    except ExecError as e:
        return ("err", (e.kind, e.info))
    except BaseException as e:  # noqa: BLE001
        return ("err", ("exception", f"{type(e).__name__}: {e}\n{traceback.format_exc()}"))


def pmap(
    fn: Callable[[Any], Any],
    items: Sequence[Any],
    *,
    fresh: bool = True,
    jobs: int | None = None,
    timeout: float = 300.0,
    chunksize: int = 1,
) -> Iterator[tuple[int, Any, str, Any]]:
    """Parallel map over `items`; yields (index, item, status, value) in completion order.

    status == "ok": value is fn(item).  status == "err": value is (kind, info).
    fresh=True runs each call in its own forked grandchild (process-global state clean);
    fresh=False runs calls inside the long-lived pool workers (use for pure functions, or when
    fn does its own run_isolated calls, e.g. an S1 instance).
    fn must be a module-level function (pool is a fork pool, so closures over module state work).
    """
    import multiprocessing as mp

    jobs = max(1, min(jobs or NCPU, len(items) or 1))
    if jobs == 1 or len(items) <= 1:
        for i, it in enumerate(items):
            st, val = _pool_call((fn, it, fresh, timeout))
            yield i, it, st, val
        return
    ctx = mp.get_context("fork")
    pool = ctx.Pool(jobs)
    try:
        packed = [(fn, it, fresh, timeout) for it in items]
        # imap (ordered) with small chunks keeps indices trivially right
        pending = [pool.apply_async(_pool_call, (p,)) for p in packed] if chunksize == 1 else None
        if pending is not None:
            for i, ar in enumerate(pending):
                st, val = ar.get()
                yield i, items[i], st, val
        else:
            for i, (st, val) in enumerate(pool.imap(_pool_call, packed, chunksize)):
                yield i, items[i], st, val
    finally:
        pool.terminate()
        pool.join()


# --------------------------------------------------------------------------- S1: BFS to closure


class BFSResult:
    def __init__(self) -> None:
        self.states: dict[Hashable, int] = {}  # canon -> id
        self.history: dict[int, tuple] = {}  # id -> minimal label history from the initial state
        self.edges: list[tuple[int, Any, int]] = []  # (src id, label, dst id)
        self.closed = False
        self.cap_hit: str | None = None
        self.max_depth = 0


def bfs(
    initial: Any,
    canon: Callable[[Any], Hashable],
    successors: Callable[[Any, tuple], Iterable[tuple[Any, Any]]],
    *,
    max_states: int = 20000,
    max_depth: int | None = None,
    deadline: float | None = None,
) -> BFSResult:
    """Explicit-state breadth-first search.

    `successors(state, history)` yields (label, next_state) and is where the transition is really
    executed and the invariant evaluated (violations are collected by the caller's closure).
    The search stops when no new canonical state appears (closed=True) or a cap is hit
    (cap_hit names it).  States are whatever the caller uses (e.g. snapshot directory handles).
    """
    res = BFSResult()
    k0 = canon(initial)
    res.states[k0] = 0
    res.history[0] = ()
    frontier: deque[tuple[Any, int, int]] = deque([(initial, 0, 0)])
    while frontier:
        state, sid, depth = frontier.popleft()
        if max_depth is not None and depth >= max_depth:
            res.cap_hit = res.cap_hit or f"max_depth={max_depth}"
            continue
        if deadline is not None and time.time() > deadline:
            res.cap_hit = "deadline"
            break
        for label, nxt in successors(state, res.history[sid]):
            k = canon(nxt)
            nid = res.states.get(k)
            if nid is None:
                if len(res.states) >= max_states:
                    res.cap_hit = f"max_states={max_states}"
                    continue
                nid = len(res.states)
                res.states[k] = nid
                res.history[nid] = res.history[sid] + (label,)
                res.max_depth = max(res.max_depth, depth + 1)
                frontier.append((nxt, nid, depth + 1))
            res.edges.append((sid, label, nid))
    res.closed = res.cap_hit is None
    return res


# --------------------------------------------------------------------------- S2: deviation-bounded DFS


class ChoicePoint:
    __slots__ = ("n", "cost")

    def __init__(self, n: int, cost: Sequence[int] | None = None) -> None:
        self.n = n  # number of enabled alternatives (choice 0 = default)
        self.cost = list(cost) if cost is not None else [0] + [1] * (n - 1)


def explore_choices(
    run: Callable[[list[int]], list[ChoicePoint]],
    bound: int,
    *,
    max_executions: int | None = None,
) -> tuple[int, bool]:
    """CHESS-style stateless exploration.

    `run(prefix)` executes once: it follows `prefix`, then takes choice 0 at every later point, and
    returns the list of ALL choice points met (prefix included).  An out-of-range prefix entry must
    raise inside run.  Every alternative whose cumulative deviation cost stays <= bound is explored.
    Returns (executions, complete).
    """
    n_exec = 0
    stack: list[list[int]] = [[]]
    complete = True
    while stack:
        prefix = stack.pop()
        if max_executions is not None and n_exec >= max_executions:
            complete = False
            break
        points = run(prefix)
        n_exec += 1
        choices = prefix + [0] * (len(points) - len(prefix))
        spent = 0
        for i, p in enumerate(points):
            if i < len(prefix):
                if prefix[i] >= p.n:
                    raise RuntimeError(f"replay divergence at point {i}: choice {prefix[i]} of {p.n}")
                spent += p.cost[prefix[i]]
                continue
            for alt in range(1, p.n):
                if spent + p.cost[alt] <= bound:
                    stack.append(choices[:i] + [alt])
    return n_exec, complete


# --------------------------------------------------------------------------- enumeration combinators


def sequences(alphabet: Sequence[Any], max_len: int, min_len: int = 0) -> Iterator[tuple]:
    """All sequences over alphabet with min_len <= length <= max_len, shortest first."""
    for n in range(min_len, max_len + 1):
        yield from itertools.product(alphabet, repeat=n)


def subsets(items: Sequence[Any], max_size: int | None = None, min_size: int = 0) -> Iterator[tuple]:
    top = len(items) if max_size is None else min(max_size, len(items))
    for k in range(min_size, top + 1):
        yield from itertools.combinations(items, k)


def ordered_subsets(items: Sequence[Any], max_size: int | None = None) -> Iterator[tuple]:
    top = len(items) if max_size is None else min(max_size, len(items))
    for k in range(0, top + 1):
        yield from itertools.permutations(items, k)


def compositions(n: int) -> Iterator[tuple[int, ...]]:
    """All ways to cut a length-n stream into consecutive non-empty chunks (2^(n-1))."""
    if n == 0:
        yield ()
        return
    for mask in range(1 << (n - 1)):
        out = []
        cur = 1
        for i in range(n - 1):
            if mask >> i & 1:
                out.append(cur)
                cur = 1
            else:
                cur += 1
        out.append(cur)
        yield tuple(out)


def chunked(seq: Sequence[Any], size: int) -> list[Sequence[Any]]:
    return [seq[i : i + size] for i in range(0, len(seq), size)]
