"""C20 lanes: how one program text is given to the REAL mypy, and how the reaction is judged.

batch lane   `mypy.main.main` in-process (mc.drivers.cli_inproc, bundled typeshed) in a freshly forked child:
             `mypy <case flags> --no-site-packages --show-traceback --cache-dir <fresh copy of a warmed stdlib
             cache> main.py`, wall timeout 60 s.
daemon lane  a `mypy.dmypy_server.Server` warmed once (check of an empty main.py), inherited copy-on-write by
             fork: per program one child checks the original, per mutant one grandchild checks mutant, then the
             original again, all through `Server.run_command("check", ...)` exactly as `serve()` dispatches.
confirm lane the real `python -m mypy` subprocess on the same files (replay only).

The oracle only looks at HOW mypy reacted (status, crash markers, line shapes), never at which diagnostics.
"""

from __future__ import annotations

import faulthandler
import hashlib
import io
import os
import pickle
import re
import select
import shutil
import signal
import sys
import time
import traceback
from typing import Any, Callable

from mc.common import same_diagnostics

REPO = os.environ.get("VERIF_REPO", "/repo")  # VERIF_REPO: harness self-test against a scratch worktree
TYPESHED_STDLIB = os.path.join(REPO, "mypy", "typeshed", "stdlib")
BASE_ARGS = ["--no-site-packages", "--show-traceback"]
RUN_TIMEOUT = 60.0  # the property's bound: a run that needs longer is a hang
CONFIRM_ENV: dict[str, str] | None = None  # extra environment of the confirmation subprocesses (seeded-defect demos only)
BASE_TIME = 1_600_000_000

# flags of the corpus (`# flags:` comments) that may be passed through to the batch lane: they only change
# what is checked / how it is reported in the standard line format.  A case with any other flag runs with
# the default flags (reports, config files, cache layout, targets, pretty output... are not part of the input).
FLAG_WHITELIST = {
    "--allow-any-generics", "--allow-any-unimported", "--allow-redefinition", "--allow-redefinition-new",
    "--allow-redefinition-old", "--allow-untyped-globals", "--always-false", "--always-true",
    "--check-unreachable", "--check-untyped-defs", "--deprecated-calls-exclude", "--disable-error-code",
    "--disallow-any-decorated", "--disallow-any-explicit", "--disallow-any-expr", "--disallow-any-generics",
    "--disallow-any-unimported", "--disallow-incomplete-defs", "--disallow-redefinition-old",
    "--disallow-subclassing-any", "--disallow-untyped-calls", "--disallow-untyped-decorators",
    "--disallow-untyped-defs", "--enable-error-code", "--enable-incomplete-feature", "--extra-checks",
    "--fast-module-lookup", "--follow-imports", "--hide-error-codes", "--ignore-missing-imports",
    "--implicit-optional", "--local-partial-types", "--namespace-packages", "--no-error-summary",
    "--no-implicit-optional", "--no-implicit-reexport", "--no-local-partial-types", "--no-namespace-packages",
    "--no-strict-bytes", "--no-strict-optional", "--no-warn-no-return", "--no-warn-unreachable", "--platform",
    "--python-version", "--report-deprecated-as-note", "--show-column-numbers", "--show-error-code-links",
    "--show-error-codes", "--show-error-context", "--show-error-end", "--soft-error-limit", "--strict",
    "--strict-bytes", "--strict-equality", "--strict-equality-for-none", "--strict-optional",
    "--untyped-calls-exclude", "--warn-no-return", "--warn-redundant-casts", "--warn-return-any",
    "--warn-unreachable", "--warn-unused-ignores",
}


def usable_flags(flags: list[str]) -> bool:
    return all((not t.startswith("-")) or t.split("=")[0] in FLAG_WHITELIST for t in flags)


# --------------------------------------------------------------------------- fork with timeout and rusage


def fork_call(fn: Callable[..., Any], *args: Any, timeout: float, dump_path: str | None = None) -> tuple[str, Any, float]:
    """fn(*args) in a freshly forked child.  Returns (kind, value, child cpu seconds);
    kind in ok | exc | timeout | signal | exit.  On timeout `dump_path` (if given) holds the child's Python
    stack as dumped by faulthandler shortly before the deadline."""
    r, w = os.pipe()
    pid = os.fork()
    if pid == 0:
        code = 0
        try:
            os.close(r)
            if dump_path is not None:
                try:
                    df = open(dump_path, "w")
                    faulthandler.dump_traceback_later(max(1.0, timeout - 3.0), exit=False, file=df)
                except Exception:
                    pass
            try:
                out = ("ok", fn(*args))
            except BaseException as e:  # noqa: BLE001
                out = ("exc", f"{type(e).__name__}: {e}\n{traceback.format_exc()}")
            faulthandler.cancel_dump_traceback_later()
            data = pickle.dumps(out)
            with os.fdopen(w, "wb") as f:
                f.write(data)
        except BaseException:  # noqa: BLE001
            code = 3
        finally:
            os._exit(code)
    os.close(w)
    chunks: list[bytes] = []
    deadline = time.time() + timeout
    timed_out = False
    try:
        while True:
            left = deadline - time.time()
            if left <= 0:
                timed_out = True
                break
            rl, _, _ = select.select([r], [], [], left)
            if not rl:
                timed_out = True
                break
            b = os.read(r, 1 << 16)
            if not b:
                break
            chunks.append(b)
    finally:
        os.close(r)
    if timed_out:
        try:
            os.kill(pid, signal.SIGKILL)
        except ProcessLookupError:
            pass
    _, status, ru = os.wait4(pid, 0)
    cpu = ru.ru_utime + ru.ru_stime
    if timed_out:
        return "timeout", f"no result after {timeout}s", cpu
    if os.WIFSIGNALED(status):
        return "signal", f"child died with signal {os.WTERMSIG(status)}", cpu
    if not chunks:
        return "exit", f"child exited with status {os.WEXITSTATUS(status)} and no result", cpu
    kind, val = pickle.loads(b"".join(chunks))
    return kind, val, cpu


# --------------------------------------------------------------------------- the oracle

DIAG_RE = re.compile(r"^[^\n:]+(?::\d+){0,4}: (?:error|note|warning): ")
SUMMARY_RE = re.compile(
    r"^(?:Found \d+ errors? in \d+ files? \((?:checked \d+ source files?|errors prevented further checking)\)"
    r"|Success: no issues found in \d+ source files?)$"
)
# notices about the command line itself (corpus `# flags:`), printed on stdout by option processing; they are not
# reactions to the input files, so the message-shape part of the oracle does not apply to them
OPTION_NOTICE_RE = re.compile(r"^Warning: (?:\S+ is already enabled by default|--\S+ is deprecated; use \S+ instead)$")
_FRAME_RE = re.compile(r'^\s*File "([^"]+)", line (\d+), in (.+)$')
_EXC_LINE_RE = re.compile(r"^([A-Za-z_][\w.]*)(?::.*)?$")


def crash_site(text: str) -> tuple[str, str, str]:
    """(exception type, innermost /repo frame as 'file:function', traceback excerpt) from output that contains a
    Python traceback.  Line numbers and the mutant are deliberately not part of the site."""
    lines = text.splitlines()
    last_tb = max((i for i, ln in enumerate(lines) if ln.startswith("Traceback (most recent call last)")), default=None)
    if last_tb is None:
        return "?", "?", ""
    frames: list[tuple[str, str]] = []
    exc = "?"
    end = len(lines)
    i = last_tb + 1
    while i < len(lines):
        ln = lines[i]
        m = _FRAME_RE.match(ln)
        if m:
            frames.append((m.group(1), m.group(3)))
        elif ln[:1] not in (" ", "\t") and ln.strip():
            m2 = _EXC_LINE_RE.match(ln)
            if m2:
                exc = m2.group(1).split(".")[-1]
            end = i + 1
            break
        i += 1
    site = "?"
    for f, fn in reversed(frames):
        if f.startswith(REPO + "/") and "/typeshed/" not in f:
            site = f"{f[len(REPO) + 1:]}:{fn}"
            break
    if exc == "RecursionError":
        site = "*"  # the innermost frame of a stack overflow is wherever the limit happened to be hit
    excerpt = "\n".join(lines[max(last_tb, end - 14) : end])
    return exc, site, excerpt


def judge_output(status: int | None, stdout: str, stderr: str) -> list[tuple[str, str, dict]]:
    """Batch-lane oracle.  Returns [(signature, one-line description, extra detail)]; empty = property holds."""
    out: list[tuple[str, str, dict]] = []
    both = stdout + ("\n" if stdout and not stdout.endswith("\n") else "") + stderr
    so_lines = stdout.splitlines()
    se_lines = stderr.splitlines()
    odd_stdout = [ln for ln in so_lines if not (DIAG_RE.match(ln) or SUMMARY_RE.match(ln) or OPTION_NOTICE_RE.match(ln))]
    odd_stderr = [ln for ln in se_lines if not DIAG_RE.match(ln)]
    crashed = (
        any("INTERNAL ERROR" in ln for ln in so_lines + se_lines)
        or any(ln.startswith("Traceback (most recent call last)") for ln in odd_stdout + odd_stderr)
        or any("AssertionError" in ln for ln in odd_stdout + odd_stderr)
    )
    if crashed:
        exc, site, excerpt = crash_site(both)
        if exc == "?" and any("AssertionError" in ln for ln in odd_stdout + odd_stderr):
            exc = "AssertionError"
        internal = [ln for ln in so_lines + se_lines if "INTERNAL ERROR" in ln]
        out.append((f"crash|{exc}|{site}", f"{exc} in {site}" + (" (reported as INTERNAL ERROR)" if internal else " (uncaught)"),
                    {"traceback": excerpt, "internal_error_line": internal[:1]}))
        return out
    if status not in (0, 1, 2):
        out.append((f"exit-status|{status}", f"exit status {status} is not 0, 1 or 2", {}))
    if odd_stdout:
        shape = re.sub(r"\d+", "N", odd_stdout[0])[:60]
        out.append((f"malformed-stdout|{shape}", f"stdout line is neither a diagnostic nor the summary: {odd_stdout[0][:200]!r}",
                    {"odd_lines": odd_stdout[:5]}))
    return out


def outcome_class(status: int | None, stdout: str) -> str:
    if "errors prevented further checking" in stdout:
        return "blocker"
    return {0: "clean", 1: "errors", 2: "status2"}.get(status if isinstance(status, int) else -1, "other")


# --------------------------------------------------------------------------- batch lane


def _batch_child(workdir: str, args: list[str]) -> dict[str, Any]:
    """Runs in the forked child: one real `mypy.main.main`."""
    from mc.drivers import cli_inproc

    cap_out, cap_err = io.StringIO(), io.StringIO()
    sys.stdout, sys.stderr = cap_out, cap_err  # report_internal_error dumps pending messages with a bare print()
    try:
        r = cli_inproc(args, workdir, fixtures=False)
    except BaseException:  # noqa: BLE001 - what `python -m mypy` would print before exiting with status 1
        r = {"stdout": "", "stderr": traceback.format_exc(), "status": 1, "uncaught": True}
    r["stdout"] = cap_out.getvalue() + r["stdout"]
    r["stderr"] = cap_err.getvalue() + r["stderr"]
    return r


def fresh_cache(master_cache: str, workdir: str) -> str:
    dst = os.path.join(workdir, "cache")
    if os.path.isdir(dst):
        shutil.rmtree(dst)
    shutil.copytree(master_cache, dst)
    return dst


def write_program(workdir: str, main_text: str, files: dict[str, str] | None = None, step: int = 0) -> None:
    if files is not None:
        for rel, text in files.items():
            p = os.path.join(workdir, rel)
            os.makedirs(os.path.dirname(p), exist_ok=True)
            with open(p, "w", encoding="utf-8", newline="") as f:
                f.write(text if text.endswith("\n") else text + "\n")
            os.utime(p, (BASE_TIME, BASE_TIME))
    p = os.path.join(workdir, "main.py")
    with open(p, "w", encoding="utf-8", newline="") as f:
        f.write(main_text + "\n")
    mt = BASE_TIME + 10 * step
    os.utime(p, (mt, mt))


def batch_args(flags: list[str], cache_dir: str) -> list[str]:
    return list(flags) + BASE_ARGS + ["--cache-dir", cache_dir, "main.py"]


def run_batch(workdir: str, main_text: str, flags: list[str], master_cache: str, timeout: float | None = None) -> dict[str, Any]:
    """One batch-lane run of `main_text` (extra files already in workdir).  Returns
    {kind, status, stdout, stderr, cpu, wall, violations:[(sig, what, extra)], harness_error}."""
    timeout = RUN_TIMEOUT if timeout is None else timeout
    write_program(workdir, main_text)
    cache = fresh_cache(master_cache, workdir)
    args = batch_args(flags, cache)
    dump = os.path.join(workdir, ".stackdump")
    t0 = time.time()
    kind, val, cpu = fork_call(_batch_child, workdir, args, timeout=timeout, dump_path=dump)
    res: dict[str, Any] = {"kind": kind, "cpu": cpu, "wall": time.time() - t0, "violations": [], "harness_error": None,
                           "status": None, "stdout": "", "stderr": "", "args": args}
    if kind == "timeout":
        # under machine load a slow run is not a hang: repeat with a long leash and judge by CPU time
        fresh_cache(master_cache, workdir)
        kind2, val2, cpu2 = fork_call(_batch_child, workdir, args, timeout=5 * timeout, dump_path=dump)
        if kind2 == "ok" and cpu2 <= timeout:
            res["harness_error"] = f"run exceeded {timeout}s wall under load but finished with {cpu2:.1f}s CPU"
            kind, val, cpu = kind2, val2, cpu2
            res["kind"], res["cpu"] = kind, cpu
        else:
            stack = ""
            try:
                with open(dump) as f:
                    stack = f.read()
            except OSError:
                pass
            site = "?"
            for ln in stack.splitlines():
                m = re.match(r'\s*File "(' + re.escape(REPO) + r'/[^"]+)", line \d+ in (\S+)', ln)
                if m and "/typeshed/" not in m.group(1):
                    site = f"{m.group(1)[len(REPO) + 1:]}"
                    break
            res["violations"].append((f"hang|{site}", f"no result within {timeout}s (CPU {max(cpu, cpu2):.0f}s); innermost file {site}",
                                      {"stack_at_deadline": stack[-3000:]}))
            return res
    if kind == "ok":
        res["status"], res["stdout"], res["stderr"] = val["status"], val["stdout"], val["stderr"]
        res["violations"] = judge_output(val["status"], val["stdout"], val["stderr"])
    elif kind == "exc":
        # cannot happen (the child catches everything); treat as harness problem, not as a mypy crash
        res["harness_error"] = f"batch child raised outside mypy: {str(val)[:500]}"
    else:  # signal / exit: the interpreter itself died (segfault, os._exit, MemoryError kill)
        res["violations"].append((f"process-died|{val.split(' after')[0][:60]}", f"mypy process died: {val}", {}))
    return res


# --------------------------------------------------------------------------- master caches (warmed once per run)


def stdlib_modules_of(texts: list[str]) -> list[str]:
    """Top-level stdlib modules (by the bundled typeshed) that the given sources import."""
    found: set[str] = set()
    for t in texts:
        for m in re.finditer(r"^[ \t]*(?:from|import)[ \t]+([A-Za-z_][\w.]*(?:[ \t]*,[ \t]*[A-Za-z_][\w.]*)*)", t, re.MULTILINE):
            for name in m.group(1).split(","):
                name = name.strip()
                parts = name.split(".")
                for k in range(1, len(parts) + 1):
                    rel = os.path.join(TYPESHED_STDLIB, *parts[:k])
                    if os.path.isfile(rel + ".pyi") or os.path.isfile(os.path.join(rel, "__init__.pyi")):
                        found.add(".".join(parts[:k]))
                    else:
                        break
    return sorted(found)


def is_stdlib_shadow(rel: str) -> bool:
    top = rel.split("/")[0]
    top = top.rsplit(".", 1)[0] if "." in top else top
    return os.path.isfile(os.path.join(TYPESHED_STDLIB, top + ".pyi")) or os.path.isdir(os.path.join(TYPESHED_STDLIB, top))


def cache_keys(flagsets: list[tuple[str, ...]]) -> dict[tuple[str, ...], str | None]:
    """Runs in a forked child: flag set -> key of the stdlib cache it needs (None: mypy rejects the flags)."""
    import mypy.main as mm

    out: dict[tuple[str, ...], str | None] = {}
    sys.stdout, sys.stderr = io.StringIO(), io.StringIO()  # option warnings are not ours to show
    for fs in flagsets:
        so, se = io.StringIO(), io.StringIO()
        try:
            _t, o = mm.process_options(list(fs) + BASE_ARGS, stdout=so, stderr=se, require_targets=False)
        except SystemExit:
            out[fs] = None
            continue
        plat, vals = o.select_options_affecting_cache()
        norm = [sorted(v) if isinstance(v, (set, frozenset)) else v for v in vals]
        blob = repr((tuple(o.python_version), plat, norm))
        out[fs] = hashlib.sha1(blob.encode()).hexdigest()[:12]
    return out


def warm_master(item: tuple[str, list[str], list[str]]) -> dict[str, Any]:
    """(master dir, flags, stdlib modules) -> warmed cache in <master dir>/cache.  Runs in a fresh child."""
    mdir, flags, modules = item
    os.makedirs(mdir, exist_ok=True)
    with open(os.path.join(mdir, "main.py"), "w") as f:
        f.write("".join(f"import {m}\n" for m in modules))
    t0 = time.time()
    r = _batch_child(mdir, batch_args(flags, os.path.join(mdir, "cache")))
    r["wall"] = time.time() - t0
    r["stdout"] = r["stdout"][-30000:]
    r["stderr"] = r["stderr"][-30000:]
    return r


# --------------------------------------------------------------------------- daemon lane

_SERVER: Any = None
DAEMON_FLAGS = ["--no-site-packages", "--show-traceback"]


_SERVER_DIR: str | None = None


def clean_dir(d: str) -> None:
    for name in os.listdir(d):
        p = os.path.join(d, name)
        if os.path.isdir(p) and not os.path.islink(p):
            shutil.rmtree(p, ignore_errors=True)
        else:
            try:
                os.remove(p)
            except OSError:
                pass


def ensure_daemon(workdir: str) -> None:
    """The warmed Server of THIS process must live in `workdir`: the daemon never changes its working directory
    in real life, and it caches file-system facts relative to it (a probe showed namespace packages that appear in a
    new cwd are not found), so every worker warms its own Server in its own directory, once."""
    if _SERVER is None or _SERVER_DIR != workdir:
        os.makedirs(workdir, exist_ok=True)
        clean_dir(workdir)
        r = warm_daemon(workdir)
        if r["crash"] or r["status"] != 0:
            raise RuntimeError(f"daemon warm-up failed in worker: {r}")


def warm_daemon(warm_dir: str) -> dict[str, Any]:
    """Create the Server and run its first check (empty main.py) in THIS process; forks inherit it."""
    global _SERVER, _SERVER_DIR
    _SERVER_DIR = warm_dir
    from mypy.dmypy_server import Server, process_start_options

    os.makedirs(warm_dir, exist_ok=True)
    os.chdir(warm_dir)
    write_program(warm_dir, "", step=0)
    options = process_start_options(list(DAEMON_FLAGS), allow_sources=False)
    _SERVER = Server(options, os.path.join(warm_dir, ".status"))
    r = daemon_request()
    return r


def daemon_request() -> dict[str, Any]:
    """One `check main.py` request, dispatched and guarded the way Server.serve() does it."""
    cap_out, cap_err = io.StringIO(), io.StringIO()
    old = sys.stdout, sys.stderr
    sys.stdout, sys.stderr = cap_out, cap_err
    crash = None
    resp: dict[str, Any] = {}
    try:
        try:
            resp = _SERVER.run_command("check", {"files": ["main.py"], "export_types": False, "is_tty": False, "terminal_width": 80})
        except BaseException as e:  # noqa: BLE001 - serve() would answer "Daemon crashed!" (Exception) or just die (SystemExit)
            crash = f"{type(e).__name__}: {e}\n{traceback.format_exc()}"
    finally:
        sys.stdout, sys.stderr = old
    text = (resp.get("out") or "") + (resp.get("err") or "")
    return {"out": text.splitlines(), "status": resp.get("status"), "error": resp.get("error"),
            "crash": crash, "log": (cap_out.getvalue() + cap_err.getvalue())[-6000:]}


def _norm_daemon_lines(lines: list[str], workdir: str) -> list[str]:
    pre = workdir.rstrip("/") + "/"
    return [ln.replace(pre, "") for ln in lines if not SUMMARY_RE.match(ln)]


def judge_daemon(resp: dict[str, Any]) -> list[tuple[str, str, dict]]:
    if resp["crash"] is not None or resp.get("error"):
        # an internal error prints its traceback (to the daemon's log) and then leaves through SystemExit(2):
        # the printed traceback names the cause, the SystemExit one only names report_internal_error
        log_text = resp["log"] or ""
        text = log_text if "Traceback (most recent call last)" in log_text else (resp["crash"] or "") + "\n" + str(resp.get("error") or "")
        exc, site, excerpt = crash_site(text)
        if exc == "?" and resp["crash"]:
            exc = resp["crash"].split(":", 1)[0]
        return [(f"crash|{exc}|{site}", f"daemon request died: {exc} in {site}", {"traceback": excerpt, "daemon": True})]
    text = "\n".join(resp["out"])
    if "INTERNAL ERROR" in text or "Traceback (most recent call last)" in text or "Daemon crashed" in text:
        exc, site, excerpt = crash_site(text + "\n" + (resp["log"] or ""))
        return [(f"crash|{exc}|{site}", f"daemon response carries a crash: {exc} in {site}", {"traceback": excerpt, "daemon": True})]
    if resp["status"] not in (0, 1, 2):
        return [(f"daemon-status|{resp['status']}", f"daemon response status {resp['status']}", {})]
    return []


def _daemon_mutant(workdir: str, original: str, mutant: str, first: dict[str, Any]) -> dict[str, Any]:
    """Grandchild: edit original -> mutant, check; edit back, check; compare with the first answer."""
    write_program(workdir, mutant, step=2)
    r2 = daemon_request()
    v = judge_daemon(r2)
    if v:
        return {"violations": v, "phase": "mutant", "resp": r2}
    write_program(workdir, original, step=3)
    r3 = daemon_request()
    v = judge_daemon(r3)
    if v:
        return {"violations": v, "phase": "back", "resp": r3}
    a = _norm_daemon_lines(first["out"], workdir)
    b = _norm_daemon_lines(r3["out"], workdir)
    eq, _order_only = same_diagnostics(a, b)
    if not eq or first["status"] != r3["status"]:
        from collections import Counter

        ca, cb = Counter(a), Counter(b)
        # cause level: which message (template) was lost or gained, not where or about which names/types
        strip = lambda s: re.sub(r'"[^"]*"', '"_"', re.sub(r"^[^\n:]+(?::\d+)*: ", "", s))  # noqa: E731
        diff = sorted({"-" + strip(x) for x in (ca - cb)} | {"+" + strip(x) for x in (cb - ca)})
        if first["status"] != r3["status"]:
            diff.append(f"status:{first['status']}->{r3['status']}")
        sig = "daemon-revert|" + "|".join(diff[:3])
        return {"violations": [(sig, "daemon answer for the original program changed after editing to the mutant and back: "
                                + "; ".join(diff[:3])[:300], {"first": a, "after_back": b, "mutant_answer": r2["out"][:20]})],
                "phase": "revert", "resp": r3}
    return {"violations": [], "changed": _norm_daemon_lines(r2["out"], workdir) != a, "status": r2["status"]}


def _daemon_program(workdir: str, files: dict[str, str], original: str, mutants: list[str], timeout: float) -> dict[str, Any]:
    """Child (fork of the warmed server): check the original once, then fork per mutant."""
    os.chdir(workdir)
    write_program(workdir, original, files, step=1)
    first = daemon_request()
    v = judge_daemon(first)
    if v:
        return {"original": {"violations": v, "resp": first}, "mutants": None}
    out = []
    for m in mutants:
        dump = os.path.join(workdir, ".stackdump")
        kind, val, cpu = fork_call(_daemon_mutant, workdir, original, m, first, timeout=timeout, dump_path=dump)
        if kind == "timeout":
            kind2, val2, cpu2 = fork_call(_daemon_mutant, workdir, original, m, first, timeout=5 * timeout, dump_path=dump)
            if kind2 == "ok" and cpu2 <= timeout:
                val2["harness_error"] = f"daemon edit cycle exceeded {timeout}s wall under load ({cpu2:.1f}s CPU)"
                kind, val = kind2, val2
            else:
                stack = ""
                try:
                    with open(dump) as f:
                        stack = f.read()
                except OSError:
                    pass
                val = {"violations": [("hang|daemon", f"daemon gave no answer within {timeout}s", {"stack_at_deadline": stack[-3000:]})],
                       "phase": "hang"}
                kind = "ok"
        if kind != "ok":
            val = {"violations": [(f"process-died|daemon|{str(val)[:60]}", f"daemon process died: {str(val)[:200]}", {})], "phase": "died"}
        # restore the files for the next grandchild (the grandchild changed main.py on disk, not our memory)
        write_program(workdir, original, step=1)
        out.append(val)
    return {"original": {"violations": [], "resp": {"status": first["status"], "n": len(first["out"])}}, "mutants": out}


def run_daemon_program(workdir: str, files: dict[str, str], original: str, mutants: list[str], timeout: float | None = None) -> dict[str, Any]:
    """`workdir` is this worker's daemon directory (see ensure_daemon); it is reset to "empty main.py only" afterwards,
    which is exactly what this process's Server remembers."""
    ensure_daemon(workdir)
    timeout = RUN_TIMEOUT if timeout is None else timeout
    try:
        kind, val, _cpu = fork_call(_daemon_program, workdir, files, original, mutants, timeout, timeout=600 + 6 * timeout * max(1, len(mutants)))
    finally:
        clean_dir(workdir)
        write_program(workdir, "", step=0)
    if kind != "ok":
        return {"harness_error": f"daemon program child: {kind}: {str(val)[:800]}"}
    return val


# --------------------------------------------------------------------------- confirmation lane (replay)


def confirm_subprocess(workdir: str, flags: list[str], timeout: float = 300.0) -> dict[str, Any]:
    """The real `python -m mypy` on the files in workdir, cold private cache."""
    import subprocess

    from mc.drivers import cli_subprocess

    cache = os.path.join(workdir, "cache-confirm")
    shutil.rmtree(cache, ignore_errors=True)
    args = batch_args(flags, cache)
    try:
        r = cli_subprocess(args, workdir, env=CONFIRM_ENV, timeout=timeout)
    except subprocess.TimeoutExpired:
        return {"status": None, "stdout": "", "stderr": "", "violations": [("hang|?", f"no result within {timeout}s", {})], "args": args}
    r["violations"] = judge_output(r["status"], r["stdout"], r["stderr"])
    r["args"] = args
    return r


def confirm_dmypy(workdir: str, files: dict[str, str], original: str, mutant: str, timeout: float = 300.0) -> dict[str, Any]:
    """The real daemon through the real client (`python -m mypy.dmypy` subprocesses): start, then `check main.py`
    after each of: empty main.py, original, mutant, original.  Returns {violations, transcript}."""
    import subprocess

    env = dict(os.environ)
    env["PYTHONPATH"] = REPO
    env.pop("PYTHON_MYPY_VERIF", None)
    if CONFIRM_ENV:
        env.update(CONFIRM_ENV)
    base = [sys.executable, "-m", "mypy.dmypy", "--status-file", os.path.join(workdir, "dmypy-status.json")]
    transcript: list[dict[str, Any]] = []

    def call(*a: str) -> dict[str, Any]:
        try:
            p = subprocess.run(base + list(a), cwd=workdir, env=env, capture_output=True, text=True, timeout=timeout)
            r = {"cmd": list(a), "status": p.returncode, "stdout": p.stdout, "stderr": p.stderr}
        except subprocess.TimeoutExpired:
            r = {"cmd": list(a), "status": None, "stdout": "", "stderr": "", "timeout": True}
        transcript.append({k: (v[-3000:] if isinstance(v, str) else v) for k, v in r.items()})
        return r

    violations: list[tuple[str, str, dict]] = []
    write_program(workdir, "", step=0)
    call("start", "--log-file", os.path.join(workdir, "dmypy-log.txt"), "--", *DAEMON_FLAGS)
    answers = []
    try:
        for step, text in enumerate(["", original, mutant, original]):
            # like the in-process lane: the extra files appear together with the original program
            write_program(workdir, text, files if step == 1 else None, step=step)
            r = call("check", "main.py")
            if r.get("timeout"):
                violations.append(("hang|daemon", f"real dmypy gave no answer within {timeout}s", {}))
                break
            text_out = r["stdout"] + r["stderr"]
            if ("Daemon crashed" in text_out or "Traceback (most recent call last)" in text_out or "INTERNAL ERROR" in text_out
                    or "Daemon has died" in text_out or "Daemon has crashed" in text_out):
                log_text = ""
                try:
                    with open(os.path.join(workdir, "dmypy-log.txt")) as f:
                        log_text = f.read()
                except OSError:
                    pass
                src = text_out if "Traceback (most recent call last)" in text_out else log_text
                exc, site, excerpt = crash_site(src)
                violations.append((f"crash|{exc}|{site}", f"real dmypy: {exc} in {site} at step {step}", {"traceback": excerpt}))
                break
            if r["status"] not in (0, 1, 2):
                violations.append((f"daemon-status|{r['status']}", f"real dmypy client exit status {r['status']}", {}))
                break
            answers.append((r["status"], [ln for ln in r["stdout"].splitlines() if not SUMMARY_RE.match(ln)]))
        if not violations and len(answers) == 4:
            eq, _ = same_diagnostics(answers[1][1], answers[3][1])
            if not eq or answers[1][0] != answers[3][0]:
                violations.append(("daemon-revert|real", "real dmypy: answer for the original differs after editing to the mutant and back",
                                   {"first": answers[1][1], "after_back": answers[3][1]}))
    finally:
        call("stop")
        call("kill")
    return {"violations": violations, "transcript": transcript}
